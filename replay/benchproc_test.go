// Replay / bounded-check driver for package benchproc (injected with
// `go test -overlay`; nothing is written to the repository).  Oracles are
// written from the documented behaviour, independent of the contracts.

package benchproc

import (
	"bytes"
	"encoding/json"
	"fmt"
	"os"
	"strings"
	"testing"

	"golang.org/x/perf/benchfmt"
)

type verifArg struct {
	Name  string  `json:"name"`
	Type  string  `json:"type"`
	Bytes []int   `json:"bytes"`
	Str   *string `json:"str"`
	Int   *string `json:"int"`
	Float *string `json:"float"`
	Bool  *bool   `json:"bool"`
	Cap   int     `json:"cap"`
	Nil   bool    `json:"nil"`
}

type verifInput struct {
	Fn   string     `json:"fn"`
	Args []verifArg `json:"args"`
}

func (a verifArg) bytes() []byte {
	if a.Nil {
		return nil
	}
	b := make([]byte, len(a.Bytes))
	for i, v := range a.Bytes {
		b[i] = byte(v)
	}
	return b
}

// verifRefParts: reference decomposition from the format description.
func verifRefParts(n []byte) (base []byte, parts [][]byte) {
	end := len(n)
	var gomax []byte
	i := len(n)
	for i > 0 && n[i-1] >= '0' && n[i-1] <= '9' {
		i--
	}
	if i > 0 && i < len(n) && n[i-1] == '-' {
		gomax = n[i-1:]
		end = i - 1
	}
	buf := n[:end]
	prev := 0
	first := true
	for j := 0; j < len(buf); j++ {
		if buf[j] == '/' {
			if first {
				base = buf[:j]
				first = false
			} else {
				parts = append(parts, buf[prev:j])
			}
			prev = j
		}
	}
	if first {
		base = buf
	} else {
		parts = append(parts, buf[prev:])
	}
	if gomax != nil {
		parts = append(parts, gomax)
	}
	return
}

// verifRefExtract: the value of key for a name, from the documentation.
func verifRefExtract(name []byte, key string) []byte {
	base, parts := verifRefParts(name)
	switch {
	case key == ".name":
		return base
	case key == ".fullname":
		return name
	case strings.HasPrefix(key, "/"):
		if key == "/gomaxprocs" && len(parts) > 0 {
			last := parts[len(parts)-1]
			if last[0] == '-' {
				return last[1:]
			}
		}
		for _, p := range parts {
			if bytes.HasPrefix(p, []byte(key+"=")) {
				return p[len(key)+1:]
			}
		}
		return nil
	}
	return nil
}

func verifCheckExtract(name []byte, key string) error {
	ext, err := newExtractor(key)
	if err != nil {
		return fmt.Errorf("newExtractor(%q): %v", key, err)
	}
	res := &benchfmt.Result{Name: benchfmt.Name(append([]byte(nil), name...))}
	got := ext(res)
	want := verifRefExtract(name, key)
	if !bytes.Equal(got, want) {
		return fmt.Errorf("extract %q from %q = %q, want %q", key, name, got, want)
	}
	return nil
}

func TestVerifReplay(t *testing.T) {
	path := os.Getenv("VERIF_REPLAY_INPUT")
	if path == "" {
		t.Skip("no replay input")
	}
	data, err := os.ReadFile(path)
	if err != nil {
		t.Fatal(err)
	}
	var in verifInput
	if err := json.Unmarshal(data, &in); err != nil {
		t.Fatal(err)
	}
	switch in.Fn {
	default:
		t.Log("NO-ORACLE for", in.Fn)
	}
}

func TestVerifBounded(t *testing.T) {
	which := os.Getenv("VERIF_BOUNDED")
	tier := os.Getenv("VERIF_TIER")
	switch which {
	case "extract":
		maxLen := 6
		if tier == "thorough" {
			maxLen = 8
		}
		alpha := []byte("ab/-=1")
		keys := []string{".name", ".fullname", "/a", "/b", "/gomaxprocs", "/ab", "/a=b", "/1"}
		n, fails := 0, 0
		var rec func(buf []byte)
		rec = func(buf []byte) {
			for _, k := range keys {
				n++
				if err := verifCheckExtract(buf, k); err != nil {
					fails++
					if fails <= 10 {
						t.Errorf("REPLAY-FAIL %v", err)
					}
				}
			}
			if len(buf) == maxLen {
				return
			}
			for _, c := range alpha {
				rec(append(buf, c))
			}
		}
		rec(make([]byte, 0, maxLen))
		fmt.Printf("BOUNDED-RESULT {\"cases\": %d, \"failures\": %d, \"bound\": \"all names of length <= %d over {a b / - = 1} x %d keys\", \"exhaustive\": true}\n", n, fails, maxLen, len(keys))
	default:
		t.Skip("unknown bounded check " + which)
	}
}
