// Replay / bounded-check driver for package benchproc (injected with
// `go test -overlay`; nothing is written to the repository).  Oracles are
// written from the documented behaviour, independent of the contracts.

package benchproc

import (
	"bytes"
	"encoding/json"
	"fmt"
	"math"
	"os"
	"strconv"
	"strings"
	"testing"

	"golang.org/x/perf/benchfmt"
	"golang.org/x/perf/benchproc/internal/parse"
)

type parseSyntaxError = parse.SyntaxError

type verifArg struct {
	Name  string  `json:"name"`
	Type  string  `json:"type"`
	Bytes []int   `json:"bytes"`
	Str   *string `json:"str"`
	Int   *string `json:"int"`
	Float *string `json:"float"`
	Bool  *bool   `json:"bool"`
	Cap   int     `json:"cap"`
	Nil   bool    `json:"nil"`
}

type verifInput struct {
	Fn   string     `json:"fn"`
	Args []verifArg `json:"args"`
}

func (a verifArg) bytes() []byte {
	if a.Nil {
		return nil
	}
	b := make([]byte, len(a.Bytes))
	for i, v := range a.Bytes {
		b[i] = byte(v)
	}
	return b
}

// verifRefParts: reference decomposition from the format description.
func verifRefParts(n []byte) (base []byte, parts [][]byte) {
	end := len(n)
	var gomax []byte
	i := len(n)
	for i > 0 && n[i-1] >= '0' && n[i-1] <= '9' {
		i--
	}
	if i > 0 && i < len(n) && n[i-1] == '-' {
		gomax = n[i-1:]
		end = i - 1
	}
	buf := n[:end]
	prev := 0
	first := true
	for j := 0; j < len(buf); j++ {
		if buf[j] == '/' {
			if first {
				base = buf[:j]
				first = false
			} else {
				parts = append(parts, buf[prev:j])
			}
			prev = j
		}
	}
	if first {
		base = buf
	} else {
		parts = append(parts, buf[prev:])
	}
	if gomax != nil {
		parts = append(parts, gomax)
	}
	return
}

// verifRefExtract: the value of key for a name, from the documentation.
func verifRefExtract(name []byte, key string) []byte {
	base, parts := verifRefParts(name)
	switch {
	case key == ".name":
		return base
	case key == ".fullname":
		return name
	case strings.HasPrefix(key, "/"):
		if key == "/gomaxprocs" && len(parts) > 0 {
			last := parts[len(parts)-1]
			if last[0] == '-' {
				return last[1:]
			}
		}
		for _, p := range parts {
			if bytes.HasPrefix(p, []byte(key+"=")) {
				return p[len(key)+1:]
			}
		}
		return nil
	}
	return nil
}

func verifCheckExtract(name []byte, key string) error {
	ext, err := newExtractor(key)
	if err != nil {
		return fmt.Errorf("newExtractor(%q): %v", key, err)
	}
	res := &benchfmt.Result{Name: benchfmt.Name(append([]byte(nil), name...))}
	got := ext(res)
	want := verifRefExtract(name, key)
	if !bytes.Equal(got, want) {
		return fmt.Errorf("extract %q from %q = %q, want %q", key, name, got, want)
	}
	return nil
}

func TestVerifReplay(t *testing.T) {
	path := os.Getenv("VERIF_REPLAY_INPUT")
	if path == "" {
		t.Skip("no replay input")
	}
	data, err := os.ReadFile(path)
	if err != nil {
		t.Fatal(err)
	}
	var in verifInput
	if err := json.Unmarshal(data, &in); err != nil {
		t.Fatal(err)
	}
	switch in.Fn {
	default:
		t.Log("NO-ORACLE for", in.Fn)
	}
}

func TestVerifBounded(t *testing.T) {
	which := os.Getenv("VERIF_BOUNDED")
	tier := os.Getenv("VERIF_TIER")
	switch which {
	case "extract":
		maxLen := 6
		if tier == "thorough" {
			maxLen = 8
		}
		alpha := []byte("ab/-=1")
		keys := []string{".name", ".fullname", "/a", "/b", "/gomaxprocs", "/ab", "/a=b", "/1"}
		n, fails := 0, 0
		var rec func(buf []byte)
		rec = func(buf []byte) {
			for _, k := range keys {
				n++
				if err := verifCheckExtract(buf, k); err != nil {
					fails++
					if fails <= 10 {
						t.Errorf("REPLAY-FAIL %v", err)
					}
				}
			}
			if len(buf) == maxLen {
				return
			}
			for _, c := range alpha {
				rec(append(buf, c))
			}
		}
		rec(make([]byte, 0, maxLen))
		fmt.Printf("BOUNDED-RESULT {\"cases\": %d, \"failures\": %d, \"bound\": \"all names of length <= %d over {a b / - = 1} x %d keys\", \"exhaustive\": true}\n", n, fails, maxLen, len(keys))
	case "keyorder":
		verifKeyOrder(t, tier)
	case "filtersem":
		verifFilterSem(t, tier)
	case "filtersyntax":
		verifFilterSyntax(t, tier)
	case "keys":
		verifKeys(t, tier)
	default:
		t.Skip("unknown bounded check " + which)
	}
}

// verifRefNum: the documented 'num' reading — a float, or digits with an SI
// (k K M G T P E Z Y) or IEC (Ki … Yi) prefix and an optional b/B.
func verifRefNum(x string) (float64, bool) {
	if v, err := strconv.ParseFloat(x, 64); err == nil {
		return v, true
	}
	i := 0
	for i < len(x) && (x[i] >= '0' && x[i] <= '9' || x[i] == '.') {
		i++
	}
	if i == 0 {
		return 0, false
	}
	v, err := strconv.ParseFloat(x[:i], 64)
	if err != nil {
		return 0, false
	}
	rest := x[i:]
	exp := 0
	if len(rest) > 0 {
		if j := strings.IndexByte("kKMGTPEZY", rest[0]); j >= 0 {
			exp = j
			if j == 0 {
				exp = 1
			}
			rest = rest[1:]
		}
	}
	base := 1000.0
	if exp > 0 && strings.HasPrefix(rest, "i") {
		base = 1024
		rest = rest[1:]
	}
	if rest == "b" || rest == "B" {
		rest = ""
	}
	if rest != "" {
		return 0, false
	}
	return v * math.Pow(base, float64(exp)), true
}

func verifKeyOrder(t *testing.T, tier string) {
	n, fails := 0, 0
	bad := func(f string, args ...any) {
		fails++
		if fails <= 12 {
			t.Errorf("REPLAY-FAIL "+f, args...)
		}
	}
	mkResult := func(name string, cfg ...string) *benchfmt.Result {
		r := &benchfmt.Result{Name: benchfmt.Name(name)}
		for i := 0; i+1 < len(cfg); i += 2 {
			r.Config = append(r.Config, benchfmt.Config{Key: cfg[i], Value: []byte(cfg[i+1]), File: true})
		}
		return r
	}
	// order axioms + arrangement independence on a set of keys
	checkOrder := func(what string, keys []Key) {
		for i, a := range keys {
			n++
			if a.Less(a) {
				bad("%s: %v < itself", what, a)
			}
			for j, b := range keys {
				if i != j && a != b {
					if a.Less(b) == b.Less(a) {
						bad("%s: %v and %v: Less is %v both ways", what, a, b, a.Less(b))
					}
					for _, c := range keys {
						if a.Less(b) && b.Less(c) && !a.Less(c) {
							bad("%s: not transitive on %v %v %v", what, a, b, c)
						}
					}
				}
			}
		}
		if len(keys) == 0 {
			return
		}
		want := append([]Key(nil), keys...)
		SortKeys(want)
		for i := 0; i+1 < len(want); i++ {
			if want[i+1].Less(want[i]) {
				bad("%s: SortKeys output not sorted at %d", what, i)
			}
		}
		for rot := 1; rot < len(keys); rot++ {
			got := append(append([]Key(nil), keys[rot:]...), keys[:rot]...)
			SortKeys(got)
			for i := range got {
				if got[i] != want[i] {
					bad("%s: sorting rotation %d gives a different sequence", what, rot)
					break
				}
			}
		}
	}
	distinct := func(keys []Key) []Key {
		seen := map[Key]bool{}
		var out []Key
		for _, k := range keys {
			if !seen[k] {
				seen[k] = true
				out = append(out, k)
			}
		}
		return out
	}
	// 1. single-field semantics
	single := func(expr string, vals []string, before func(a, b string) (bool, bool)) {
		var pp ProjectionParser
		f, _ := NewFilter("*")
		proj, err := pp.Parse(expr, f)
		if err != nil {
			bad("Parse(%q): %v", expr, err)
			return
		}
		var keys []Key
		for _, v := range vals {
			keys = append(keys, proj.Project(mkResult("X", "k", v)))
		}
		keys = distinct(keys)
		fld := proj.Fields()[0]
		for _, a := range keys {
			for _, b := range keys {
				if a == b {
					continue
				}
				n++
				if want, decided := before(a.Get(fld), b.Get(fld)); decided && a.Less(b) != want {
					bad("%s: %q before %q = %v, want %v", expr, a.Get(fld), b.Get(fld), a.Less(b), want)
				}
			}
		}
		checkOrder(expr, keys)
	}
	strs := []string{"b", "a", "", "B", "ab", "a b", "10", "9", "z"}
	single("k@alpha", strs, func(a, b string) (bool, bool) { return a < b, true })
	nums := []string{"3", "1Ki", "1Zi", "1Yi", "1Ei", "2Mi", "1Y", "1Z", "1k", "1K", "1M", "2.5G", "1T", "1P", "1E", "NaN", "x", "y", "1e3", "1000", "1kB", "7b", "-1", "+Inf"}
	single("k@num", nums, func(a, b string) (bool, bool) {
		x, xok := verifRefNum(a)
		y, yok := verifRefNum(b)
		switch {
		case xok && !yok:
			return true, true
		case !xok && yok:
			return false, true
		case !xok && !yok:
			return false, false
		}
		if math.IsNaN(x) || math.IsNaN(y) {
			if math.IsNaN(x) && math.IsNaN(y) {
				return false, false
			}
			return math.IsNaN(y), true
		}
		if x == y {
			return false, false
		}
		return x < y, true
	})
	fixed := []string{"c", "a", "b"}
	single("k@(c a b)", []string{"a", "b", "c", "a", "c"}, func(a, b string) (bool, bool) {
		ia, ib := -1, -1
		for i, v := range fixed {
			if v == a {
				ia = i
			}
			if v == b {
				ib = i
			}
		}
		return ia < ib, true
	})
	first := []string{"q", "z", "a", "m", "z", "b", "a"}
	rank := map[string]int{}
	for _, v := range first {
		if _, ok := rank[v]; !ok {
			rank[v] = len(rank)
		}
	}
	single("k", first, func(a, b string) (bool, bool) { return rank[a] < rank[b], true })
	// 2. first-observation order inside .config, with keys appearing late and a flatten before any field exists
	for _, early := range []bool{false, true} {
		for _, expr := range []string{".config", ".config@alpha", ".name,.config", "k2,.config"} {
			var pp ProjectionParser
			f, _ := NewFilter("*")
			proj, err := pp.Parse(expr, f)
			if err != nil {
				bad("Parse(%q): %v", expr, err)
				continue
			}
			var keys []Key
			if early {
				keys = append(keys, proj.Project(mkResult("E")))
				proj.FlattenedFields()
				SortKeys(keys)
			}
			obs := [][]string{{"k1", "z"}, {"k1", "a"}, {"k1", "m", "k2", "y"}, {"k1", "a", "k2", "b"}, {"k2", "y"}, {"k1", "z", "k3", "c"}}
			for _, o := range obs {
				keys = append(keys, proj.Project(mkResult("N", o...)))
			}
			keys = distinct(keys)
			if len(proj.FlattenedFields()) < 3 {
				bad("%s early=%v: FlattenedFields has %d fields after 3 config keys were seen", expr, early, len(proj.FlattenedFields()))
			}
			checkOrder(fmt.Sprintf("%s early=%v", expr, early), keys)
			// per-key order of the .config sub-field k1: first observation z, a, m unless @alpha
			var k1 *Field
			for _, fl := range proj.FlattenedFields() {
				if fl.Name == "k1" {
					k1 = fl
				}
			}
			if k1 != nil && expr != "k2,.config" {
				want := map[string]int{"z": 0, "a": 1, "m": 2}
				if strings.Contains(expr, "@alpha") {
					want = map[string]int{"a": 0, "m": 1, "z": 2}
				}
				for _, a := range keys {
					for _, b := range keys {
						va, vb := a.Get(k1), b.Get(k1)
						ra, oka := want[va]
						rb, okb := want[vb]
						if oka && okb && va != vb && (expr != ".name,.config" || a.Get(proj.Fields()[0]) == b.Get(proj.Fields()[0])) {
							n++
							if a.Less(b) != (ra < rb) {
								bad("%s early=%v: k1=%q before k1=%q is %v, want %v", expr, early, va, vb, a.Less(b), ra < rb)
							}
						}
					}
				}
			}
		}
	}
	fmt.Printf("BOUNDED-RESULT {\"cases\": %d, \"failures\": %d, \"bound\": \"single-field orders (alpha over 9 strings, num over 24 spellings incl. every SI/IEC prefix, fixed list, first observation) against reference semantics; .config sub-field observation order with late keys and an early flatten, 4 projections; order axioms and arrangement independence of SortKeys on every key set\", \"exhaustive\": false}\n", n, fails)
}


// ---------------------------------------------------------------------------
// Filter semantics (C06) and expression syntax (C07)

// A reference filter expression: a tree rendered to text in varied syntax and
// evaluated per measurement under ordinary boolean semantics.
type verifExpr struct {
	op   byte // 'a' atom, '!', '&', '|', 't' (the constant *)
	key  string
	val  string
	kids []*verifExpr
}

func (e *verifExpr) eval(res *benchfmt.Result, i int) bool {
	switch e.op {
	case 't':
		return true
	case 'a':
		if e.key == ".unit" {
			v := res.Values[i]
			return v.Unit == e.val || (v.OrigUnit != "" && v.OrigUnit == e.val)
		}
		return string(verifRefKey(res, e.key)) == e.val
	case '!':
		return !e.kids[0].eval(res, i)
	case '&':
		for _, k := range e.kids {
			if !k.eval(res, i) {
				return false
			}
		}
		return true
	case '|':
		for _, k := range e.kids {
			if k.eval(res, i) {
				return true
			}
		}
		return false
	}
	panic("bad op")
}

func verifRefKey(res *benchfmt.Result, key string) []byte {
	if strings.HasPrefix(key, ".") || strings.HasPrefix(key, "/") {
		return verifRefExtract(res.Name, key)
	}
	for _, c := range res.Config {
		if c.Key == key {
			return c.Value
		}
	}
	return nil
}

func verifWord(s string, style int) string {
	plain := s != "" && s != "AND" && s != "OR" && !strings.ContainsAny(s, "\" ():@,\\/") && s[0] != '-' && s[0] != '*'
	for _, r := range s {
		if r <= ' ' || r >= 0x7f {
			plain = false
		}
	}
	if plain && style%2 == 0 {
		return s
	}
	return strconv.Quote(s)
}

func (e *verifExpr) render(style int, top bool) string {
	switch e.op {
	case 't':
		return "*"
	case 'a':
		return verifWord(e.key, style) + ":" + verifWord(e.val, style/2)
	case '!':
		k := e.kids[0]
		if k.op == 'a' || k.op == 't' {
			return "-" + k.render(style, false)
		}
		return "-(" + k.render(style, true) + ")"
	case '&', '|':
		sep := " "
		if e.op == '&' && style%3 == 1 {
			sep = " AND "
		}
		if e.op == '|' {
			sep = " OR "
		}
		var parts []string
		for _, k := range e.kids {
			r := k.render(style, false)
			if (k.op == '&' || k.op == '|') && k.op != e.op {
				r = "(" + r + ")"
			} else if k.op == e.op {
				r = "(" + r + ")"
			}
			parts = append(parts, r)
		}
		return strings.Join(parts, sep)
	}
	panic("bad op")
}

func verifResults() []*benchfmt.Result {
	units := []string{"ns/op", "B/op", "allocs/op", "MB/s", "x"}
	var out []*benchfmt.Result
	for _, nv := range []int{0, 1, 2, 3, 31, 32, 33, 40, 63, 64, 65, 96} {
		for variant := 0; variant < 3; variant++ {
			r := &benchfmt.Result{Name: benchfmt.Name([]string{"Foo/a=1-4", "Bar", "Foo/a=2/b=x y"}[variant])}
			r.Config = []benchfmt.Config{{Key: "f1", Value: []byte([]string{"v1", "v2", "x y"}[variant]), File: true}, {Key: "c d", Value: []byte("q\"z"), File: true}}
			for i := 0; i < nv; i++ {
				u := units[(i*7+variant*3+i/5)%len(units)]
				if variant == 1 && nv >= 32 {
					u = units[0] // all the same unit: the all-ones mask
				}
				v := benchfmt.Value{Value: float64(i), Unit: u}
				if u == "ns/op" {
					v = benchfmt.Value{Value: float64(i) * 1e-9, Unit: "sec/op", OrigValue: float64(i), OrigUnit: "ns/op"}
				}
				r.Values = append(r.Values, v)
			}
			out = append(out, r)
		}
	}
	return out
}

func verifFilterSem(t *testing.T, tier string) {
	atoms := []*verifExpr{
		{op: 'a', key: "f1", val: "v1"}, {op: 'a', key: "f1", val: "v2"}, {op: 'a', key: "f1", val: "x y"},
		{op: 'a', key: ".unit", val: "ns/op"}, {op: 'a', key: ".unit", val: "sec/op"}, {op: 'a', key: ".unit", val: "B/op"}, {op: 'a', key: ".unit", val: "x"},
		{op: 'a', key: ".name", val: "Foo"}, {op: 'a', key: "/a", val: "1"}, {op: 'a', key: "/gomaxprocs", val: "4"}, {op: 'a', key: "c d", val: "q\"z"},
		{op: 'a', key: "missing", val: ""}, {op: 't'},
	}
	var exprs []*verifExpr
	exprs = append(exprs, atoms...)
	for _, a := range atoms {
		exprs = append(exprs, &verifExpr{op: '!', kids: []*verifExpr{a}})
	}
	sel := atoms
	if tier != "thorough" {
		sel = []*verifExpr{atoms[0], atoms[1], atoms[3], atoms[5], atoms[7], atoms[10], atoms[12]}
	}
	for _, a := range sel {
		for _, b := range sel {
			exprs = append(exprs, &verifExpr{op: '&', kids: []*verifExpr{a, b}}, &verifExpr{op: '|', kids: []*verifExpr{a, b}})
			for _, c := range []*verifExpr{atoms[3], atoms[1], atoms[5]} {
				and := &verifExpr{op: '&', kids: []*verifExpr{a, b}}
				or := &verifExpr{op: '|', kids: []*verifExpr{a, b}}
				exprs = append(exprs,
					&verifExpr{op: '&', kids: []*verifExpr{a, b, c}}, &verifExpr{op: '|', kids: []*verifExpr{a, b, c}},
					&verifExpr{op: '|', kids: []*verifExpr{and, c}}, &verifExpr{op: '&', kids: []*verifExpr{or, c}},
					&verifExpr{op: '!', kids: []*verifExpr{and}}, &verifExpr{op: '!', kids: []*verifExpr{&verifExpr{op: '|', kids: []*verifExpr{and, c}}}},
					&verifExpr{op: '&', kids: []*verifExpr{c, &verifExpr{op: '!', kids: []*verifExpr{or}}}})
			}
		}
	}
	results := verifResults()
	n, fails := 0, 0
	bad := func(f string, args ...any) {
		fails++
		if fails <= 12 {
			t.Errorf("REPLAY-FAIL "+f, args...)
		}
	}
	for ei, e := range exprs {
		for style := 0; style < 6; style++ {
			if tier != "thorough" && style != ei%6 && style != (ei+3)%6 {
				continue
			}
			text := e.render(style, true)
			f, err := NewFilter(text)
			if err != nil {
				bad("NewFilter(%q): %v", text, err)
				break
			}
			for _, res := range results {
				n++
				before := res.Clone()
				m, err := f.Match(res)
				if err != nil {
					bad("%q Match: %v", text, err)
					break
				}
				if len(res.Values) != len(before.Values) || len(res.Config) != len(before.Config) {
					bad("%q: Match modified the result", text)
				}
				all, any := true, false
				var keep []benchfmt.Value
				mism := false
				for i := range res.Values {
					want := e.eval(res, i)
					if m.Test(i) != want {
						bad("%q on %s with %d values: measurement %d (%s) matched=%v, want %v", text, res.Name, len(res.Values), i, res.Values[i].Unit, m.Test(i), want)
						mism = true
						break
					}
					all = all && want
					any = any || want
					if want {
						keep = append(keep, res.Values[i])
					}
				}
				if mism {
					continue
				}
				if len(res.Values) > 0 && (m.All() != all || m.Any() != any) {
					bad("%q on %s with %d values: All=%v Any=%v, want %v %v", text, res.Name, len(res.Values), m.All(), m.Any(), all, any)
					continue
				}
				c := res.Clone()
				got, err := f.Apply(c)
				if err != nil {
					bad("%q Apply: %v", text, err)
					continue
				}
				if len(res.Values) > 0 {
					if got != any || len(c.Values) != len(keep) {
						bad("%q on %s with %d values: Apply=%v keeping %d, want %v keeping %d", text, res.Name, len(res.Values), got, len(c.Values), any, len(keep))
						continue
					}
					for i := range keep {
						if c.Values[i] != keep[i] {
							bad("%q on %s: Apply kept the wrong measurement at %d", text, res.Name, i)
							break
						}
					}
				}
			}
		}
	}
	// fixed value lists in projections remove exactly the results whose value is not listed
	for _, tc := range []struct{ expr, key string }{{".fullname@(Bar Foo/a=1-4)", ".fullname"}, {".name@(Foo)", ".name"}, {"f1@(v2 v1)", "f1"}, {"/a@(2)", "/a"},
		// the empty string may be listed: it is the value of a missing key
		{"f1@(\"\" v1)", "f1"}, {"/a@(2 \"\")", "/a"}, {"nosuchkey@(\"\")", "nosuchkey"}, {"/zz@(\"\" 1)", "/zz"}} {
		var pp ProjectionParser
		f, _ := NewFilter("*")
		if _, err := pp.Parse(tc.expr, f); err != nil {
			bad("Parse(%q): %v", tc.expr, err)
			continue
		}
		list := strings.Fields(strings.Trim(tc.expr[strings.Index(tc.expr, "@")+1:], "()"))
		for i := range list {
			if list[i] == "\"\"" {
				list[i] = ""
			}
		}
		for _, res := range results {
			n++
			val := string(verifRefKey(res, tc.key))
			want := false
			for _, l := range list {
				if l == val {
					want = true
				}
			}
			m, _ := f.Match(res)
			if len(res.Values) > 0 && m.Any() != want {
				bad("projection %q on %s: kept=%v, want %v (value %q)", tc.expr, res.Name, m.Any(), want, val)
			}
		}
	}
	fmt.Printf("BOUNDED-RESULT {\"cases\": %d, \"failures\": %d, \"bound\": \"%d expression trees over 13 atoms (depth <= 3, NOT/AND/OR, juxtaposition and AND, quoted and bare words) x 36 results with 0,1,2,3,31,32,33,40,63,64,65,96 measurements: Test per measurement, All, Any, Apply, Match leaves the result untouched; 8 fixed-list projections (incl. lists with the empty value and missing keys)\", \"exhaustive\": false}\n", n, fails, len(exprs))
}

func verifFilterSyntax(t *testing.T, tier string) {
	n, fails := 0, 0
	bad := func(f string, args ...any) {
		fails++
		if fails <= 12 {
			t.Errorf("REPLAY-FAIL "+f, args...)
		}
	}
	safely := func(what string, f func() error) (err error, panicked bool) {
		defer func() {
			if r := recover(); r != nil {
				bad("%s panicked: %v", what, r)
				panicked = true
			}
		}()
		return f(), false
	}
	checkErr := func(what, text string, err error) {
		if err == nil {
			return
		}
		type offsetter interface{ Error() string }
		if se, ok := err.(interface{ Error() string }); ok {
			_ = se
		}
		// the error must be positioned inside the text
		if pe, ok := err.(*parseSyntaxError); ok {
			if pe.Off < 0 || pe.Off > len(text) {
				bad("%s(%q): error offset %d outside the text", what, text, pe.Off)
			}
		}
	}
	// 1. any string is expressible as a quoted word; unquoted when it has no special character
	strs := []string{"a", "a b", "", "\\", "a\\", "\\\\", "\"", "a\"b", "(", ")", ":", "-x", "*", "@", ",", "AND", "OR", "voil\u00e0", "\u0105", "\u00a0", "x\ty", "/re/", "a/b", "k=v", "\x00", "\xff"}
	res := func(k, v string) *benchfmt.Result {
		return &benchfmt.Result{Name: benchfmt.Name("N"), Config: []benchfmt.Config{{Key: k, Value: []byte(v), File: true}}, Values: []benchfmt.Value{{Value: 1, Unit: "u"}}}
	}
	for _, k := range strs {
		for _, v := range strs {
			if k == "" || strings.HasPrefix(k, ".") || strings.HasPrefix(k, "/") {
				continue
			}
			for _, prefix := range []string{"", "x:y ", "x:y AND ", "-x:y ", "(x:y OR * ) "} {
				n++
				text := prefix + strconv.Quote(k) + ":" + strconv.Quote(v)
				var f *Filter
				err, p := safely("NewFilter("+text+")", func() error { var e error; f, e = NewFilter(text); return e })
				if p {
					continue
				}
				if err != nil {
					bad("NewFilter(%q): %v", text, err)
					continue
				}
				if prefix != "" {
					continue
				}
				for _, other := range []string{v, v + "x", "", "zz"} {
					m, _ := f.Match(res(k, other))
					if m.Any() != (other == v) {
						bad("NewFilter(%q) on %s=%q: matched=%v", text, k, other, m.Any())
					}
				}
			}
		}
		plain := k != "" && k != "AND" && k != "OR" && !strings.ContainsAny(k, "\" ():@,\\\t\x00") && k[0] != '-' && k[0] != '*' && !strings.ContainsRune(k, 0xa0)
		if plain {
			n++
			text := "k:" + k
			f, err := NewFilter(text)
			if err != nil {
				bad("NewFilter(%q): %v", text, err)
			} else if m, _ := f.Match(res("k", k)); !m.Any() {
				bad("NewFilter(%q) does not match k=%q", text, k)
			}
		}
	}
	// 2. bad expressions are rejected
	rejects := []string{"(a:b", "a:b)", "a:\"b", "a:/b", "a", "a:", ":b", "a:b c", "-", "a:(b", "a:()", "()", "a:b OR", "OR a:b",
		".config:x", ".config:x f1:v1", "f1:v1 .config:x", ".config:x OR f1:v1", "-(.config:x OR *)", "\"\":x", "\"\":x f1:v1", "f1:v1 \"\":x"}
	for _, text := range rejects {
		n++
		var f *Filter
		err, p := safely("NewFilter("+text+")", func() error { var e error; f, e = NewFilter(text); return e })
		if p {
			continue
		}
		if err == nil {
			bad("NewFilter(%q) is accepted", text)
			if f != nil {
				safely("Match after NewFilter("+text+")", func() error { _, e := f.Match(res("f1", "v1")); return e })
			}
		}
		checkErr("NewFilter", text, err)
	}
	projRejects := []string{".unit", "a,.unit", "a@zzz", ".config@(a b)", "a@()", "a@(", "a@", "a,,b", "(a)"}
	for _, text := range projRejects {
		n++
		var pp ProjectionParser
		f, _ := NewFilter("*")
		err, p := safely("Parse("+text+")", func() error { _, e := pp.Parse(text, f); return e })
		if !p && err == nil {
			bad("projection %q is accepted", text)
		}
	}
	// 3. every short text over the syntax alphabet: no panic, no hang, errors positioned inside the text
	alpha := "a\"\\():-*/ @,O"
	maxLen := 5
	if tier == "thorough" {
		maxLen = 6
	}
	var rec func(buf []byte)
	rec = func(buf []byte) {
		text := string(buf)
		n++
		var ferr error
		safely("NewFilter("+text+")", func() error { _, ferr = NewFilter(text); return nil })
		checkErr("NewFilter", text, ferr)
		if len(buf) <= maxLen-1 {
			var pp ProjectionParser
			f, _ := NewFilter("*")
			var perr error
			safely("Parse("+text+")", func() error { _, perr = pp.Parse(text, f); return nil })
			checkErr("Parse", text, perr)
		}
		if len(buf) == maxLen {
			return
		}
		for i := 0; i < len(alpha); i++ {
			rec(append(buf, alpha[i]))
		}
	}
	rec(make([]byte, 0, maxLen))
	fmt.Printf("BOUNDED-RESULT {\"cases\": %d, \"failures\": %d, \"bound\": \"26x26 key/value strings written as quoted Go literals in 5 term positions; unquoted words without special characters; %d filter and %d projection texts that must be rejected; every text of length <= %d over %q for panics, hangs and error offsets\", \"exhaustive\": false}\n", n, fails, len(rejects), len(projRejects), maxLen, alpha)
}

// ---------------------------------------------------------------------------
// C08: keys identify projected tuples; projections plus residue lose nothing.

// verifRemaining: the full name with the parts of the excluded sub-name keys
// deleted and, if .name is excluded, the base name replaced by "*".
func verifRemaining(name []byte, excl map[string]bool) string {
	base, parts := verifRefParts(name)
	var out []byte
	if excl[".name"] {
		out = append(out, '*')
	} else {
		out = append(out, base...)
	}
	for _, p := range parts {
		drop := false
		if p[0] == '-' {
			drop = excl["/gomaxprocs"]
		} else {
			k := string(p)
			if i := strings.IndexByte(k, '='); i >= 0 {
				drop = excl[k[:i]]
			}
		}
		if !drop {
			out = append(out, p...)
		}
	}
	return string(out)
}

type verifProjRef struct {
	fields []string // field keys of this projection in expression order
}

// verifRefVals: field name -> value (empty values dropped) that projection
// fields `fields` extract from r, given the parser-wide specific keys.
func verifRefVals(fields []string, r *benchfmt.Result, specific map[string]bool) map[string]string {
	out := map[string]string{}
	put := func(k, v string) {
		if v != "" {
			out[k] = v
		}
	}
	for _, f := range fields {
		switch {
		case f == ".config":
			for _, c := range r.Config {
				if c.File && !specific[c.Key] {
					put("cfg:"+c.Key, string(c.Value))
				}
			}
		case f == ".fullname":
			put(f, verifRemaining(r.Name, specific))
		case f == ".name" || strings.HasPrefix(f, "/"):
			put(f, string(verifRefExtract(r.Name, f)))
		default:
			for _, c := range r.Config {
				if c.Key == f {
					put(f, string(c.Value))
				}
			}
		}
	}
	return out
}

func verifMapsEqual(a, b map[string]string) bool {
	if len(a) != len(b) {
		return false
	}
	for k, v := range a {
		if b[k] != v {
			return false
		}
	}
	return true
}

func verifPermutations(n int) [][]int {
	if n == 0 {
		return [][]int{{}}
	}
	var out [][]int
	for _, p := range verifPermutations(n - 1) {
		for i := 0; i <= len(p); i++ {
			q := append(append(append([]int{}, p[:i]...), n-1), p[i:]...)
			out = append(out, q)
		}
	}
	return out
}

func verifKeys(t *testing.T, tier string) {
	n, fails := 0, 0
	bad := func(f string, args ...any) {
		fails++
		if fails <= 12 {
			t.Errorf("REPLAY-FAIL "+f, args...)
		}
	}
	seed := uint64(1)
	if s := os.Getenv("VERIF_SEED"); s != "" {
		if v, err := strconv.ParseUint(s, 10, 64); err == nil {
			seed = v
		}
	}
	rnd := func(k int) int {
		seed = seed*6364136223846793005 + 1442695040888963407
		return int((seed >> 33) % uint64(k))
	}
	sets := [][]string{
		{".config"},
		{"/size"},
		{"/size", ".fullname"},
		{".name", "/size"},
		{"goos", ".config"},
		{".config", "goos"},
		{"/gomaxprocs", ".fullname"},
		{"/a", "/size,.name"},
		{"note", "/sizeclass", ".fullname,.config"},
		{".fullname", "/size", "/abc"},
		{"pkg,goos"},
		// a file configuration key may contain '/' anywhere but at the start
		{"cpu/model", ".config"},
		{".config", "cpu/model", "/size"},
		// several sub-name keys taken out of a .fullname that stays in the residue
		{"/gomaxprocs", "/size"},
		{"/size", "/gomaxprocs", "goos"},
		{"/a", "/gomaxprocs", "/sizeclass"},
	}
	streams := 60
	if tier == "thorough" {
		streams = 600
	}
	bases := []string{"X", "Y"}
	partPool := [][]string{
		{"", "/size=1", "/size=2", "/size="},
		{"", "/sizeclass=3", "/sizeclass=4"},
		{"", "/abc", "/a=1", "/a=2"},
		{"", "-8", "-4"},
	}
	cfgKeys := []string{"goos", "note", "cpu/model", "pkg", "runner"}
	cfgVals := []string{"a", "b", ""}
	units := []string{"ns/op", "B/op", "allocs/op"}
	genResult := func(stage int) *benchfmt.Result {
		name := bases[rnd(2)]
		for _, pp := range partPool {
			name += pp[rnd(len(pp))]
		}
		r := &benchfmt.Result{Name: benchfmt.Name(name)}
		// configuration keys appear gradually: stage limits how many exist
		for i, k := range cfgKeys {
			if i >= stage {
				break
			}
			switch rnd(4) {
			case 0: // absent
			case 1, 2:
				r.Config = append(r.Config, benchfmt.Config{Key: k, Value: []byte(cfgVals[rnd(len(cfgVals))]), File: true})
			case 3: // internal (non-file) configuration
				r.Config = append(r.Config, benchfmt.Config{Key: k, Value: []byte(cfgVals[rnd(2)] + "i"), File: false})
			}
		}
		nv := 1 + rnd(2)
		for i := 0; i < nv; i++ {
			r.Values = append(r.Values, benchfmt.Value{Value: float64(i), Unit: units[rnd(len(units))]})
		}
		return r
	}
	for _, set := range sets {
		specific := map[string]bool{}
		var refFields [][]string
		for _, expr := range set {
			fs := strings.Split(expr, ",")
			refFields = append(refFields, fs)
			for _, f := range fs {
				if f != ".config" && f != ".fullname" {
					specific[f] = true
				}
			}
		}
		haveConfig, haveFull := false, false
		for _, fs := range refFields {
			for _, f := range fs {
				haveConfig = haveConfig || f == ".config"
				haveFull = haveFull || f == ".fullname"
			}
		}
		var residueFields []string
		if !haveConfig {
			residueFields = append(residueFields, ".config")
		}
		if !haveFull {
			residueFields = append(residueFields, ".fullname")
		}
		for _, perm := range verifPermutations(len(set)) {
			for si := 0; si < streams; si++ {
				var pp ProjectionParser
				projs := make([]*Projection, len(set))
				withUnit := rnd(3) == 0
				var unitField *Field
				for _, pi := range perm {
					var err error
					if withUnit && pi == 0 {
						projs[pi], unitField, err = pp.ParseWithUnit(set[pi], nil)
					} else {
						projs[pi], err = pp.Parse(set[pi], nil)
					}
					if err != nil {
						t.Fatalf("Parse(%q): %v", set[pi], err)
					}
				}
				residue := pp.Residue()
				// a caller may list the fields before the first result arrives (when the
				// group fields .config / .fullname residue are still empty)
				if rnd(2) == 0 {
					for _, p := range projs {
						p.FlattenedFields()
					}
					residue.FlattenedFields()
				}
				nres := 5 + rnd(5)
				var results []*benchfmt.Result
				var keys [][]Key    // per result, per projection (+ residue last)
				var ukeys [][]Key   // per result: ProjectValues keys of projection 0 when withUnit
				for ri := 0; ri < nres; ri++ {
					r := genResult(ri * (len(cfgKeys) + 1) / nres)
					results = append(results, r)
					var ks []Key
					for pi, p := range projs {
						if withUnit && pi == 0 {
							uk := p.ProjectValues(r)
							ukeys = append(ukeys, uk)
							ks = append(ks, Key{})
							continue
						}
						ks = append(ks, p.Project(r))
					}
					ks = append(ks, residue.Project(r))
					keys = append(keys, ks)
				}
				desc := func(i int) string {
					r := results[i]
					s := string(r.Name)
					for _, c := range r.Config {
						s += fmt.Sprintf(" %s=%q(file=%v)", c.Key, c.Value, c.File)
					}
					return s
				}
				allFields := append(append([][]string{}, refFields...), residueFields)
				// 1. key identity per projection, across field growth
				for pi := range allFields {
					if withUnit && pi == 0 {
						continue
					}
					for i := range results {
						vi := verifRefVals(allFields[pi], results[i], specific)
						for j := i + 1; j < len(results); j++ {
							n++
							vj := verifRefVals(allFields[pi], results[j], specific)
							same := verifMapsEqual(vi, vj)
							if (keys[i][pi] == keys[j][pi]) != same {
								bad("set %q order %v projection %d %v: keys equal=%v but projected values equal=%v for results #%d [%s] (%v) and #%d [%s] (%v)", set, perm, pi, allFields[pi], keys[i][pi] == keys[j][pi], same, i, desc(i), vi, j, desc(j), vj)
							}
						}
					}
				}
				// 1b. the flattened field list is the leaves of the field tree, whenever it is asked for
				for pi := 0; pi <= len(projs); pi++ {
					p := residue
					if pi < len(projs) {
						p = projs[pi]
					}
					var leaves []*Field
					var collect func(fs []*Field)
					collect = func(fs []*Field) {
						for _, f := range fs {
							if f.IsTuple {
								collect(f.Sub)
							} else {
								leaves = append(leaves, f)
							}
						}
					}
					collect(p.Fields())
					n++
					flat := p.FlattenedFields()
					same := len(flat) == len(leaves)
					for k := 0; same && k < len(flat); k++ {
						same = flat[k] == leaves[k]
					}
					if !same {
						bad("set %q order %v projection %d: FlattenedFields lists %d fields %v, the field tree has %d leaves %v", set, perm, pi, len(flat), flat, len(leaves), leaves)
					}
				}
				// 2. a key returns exactly the extracted values
				for pi := range allFields {
					if withUnit && pi == 0 {
						continue
					}
					var p *Projection
					if pi < len(projs) {
						p = projs[pi]
					} else {
						p = residue
					}
					for i := range results {
						n++
						want := verifRefVals(allFields[pi], results[i], specific)
						got := map[string]string{}
						var walk func(prefix string, fs []*Field)
						walk = func(prefix string, fs []*Field) {
							for _, f := range fs {
								if f.IsTuple {
									walk("cfg:", f.Sub)
									continue
								}
								if v := keys[i][pi].Get(f); v != "" {
									got[prefix+f.Name] = v
								}
							}
						}
						walk("", p.Fields())
						if !verifMapsEqual(got, want) {
							bad("set %q order %v projection %d: key of [%s] holds %v, extracted values are %v", set, perm, pi, desc(i), got, want)
						}
					}
				}
				// 3. per-measurement keys vary only on .unit
				if withUnit {
					for i := range results {
						vi := verifRefVals(allFields[0], results[i], specific)
						for a := range results[i].Values {
							if g := ukeys[i][a].Get(unitField); g != results[i].Values[a].Unit {
								bad("set %q: unit key of [%s] value %d has .unit %q, want %q", set, desc(i), a, g, results[i].Values[a].Unit)
							}
							for j := i; j < len(results); j++ {
								vj := verifRefVals(allFields[0], results[j], specific)
								for b := range results[j].Values {
									n++
									same := verifMapsEqual(vi, vj) && results[i].Values[a].Unit == results[j].Values[b].Unit
									if (ukeys[i][a] == ukeys[j][b]) != same {
										bad("set %q order %v: per-unit keys equal=%v but values+unit equal=%v for [%s]#%d and [%s]#%d", set, perm, ukeys[i][a] == ukeys[j][b], same, desc(i), a, desc(j), b)
									}
								}
							}
						}
					}
				}
				// 4. projections + residue lose nothing
				if !withUnit {
					for i := range results {
						for j := i + 1; j < len(results); j++ {
							n++
							agree := true
							for pi := range keys[i] {
								if keys[i][pi] != keys[j][pi] {
									agree = false
								}
							}
							ri, rj := results[i], results[j]
							ref := verifRemaining(ri.Name, specific) == verifRemaining(rj.Name, specific)
							for k := range specific {
								if k == ".name" || strings.HasPrefix(k, "/") {
									if string(verifRefExtract(ri.Name, k)) != string(verifRefExtract(rj.Name, k)) {
										ref = false
									}
								}
							}
							cfgOf := func(r *benchfmt.Result) map[string]string {
								m := map[string]string{}
								for _, c := range r.Config {
									if (c.File || specific[c.Key]) && len(c.Value) > 0 {
										m[c.Key] = string(c.Value)
									}
								}
								return m
							}
							if !verifMapsEqual(cfgOf(ri), cfgOf(rj)) {
								ref = false
							}
							if agree != ref {
								bad("set %q order %v: results [%s] and [%s] agree on all keys=%v but same configuration/name parts=%v", set, perm, desc(i), desc(j), agree, ref)
							}
						}
					}
				}
			}
		}
	}
	fmt.Printf("BOUNDED-RESULT {\"cases\": %d, \"failures\": %d, \"bound\": \"%d projection sets x all parse orders x %d random streams of 5-9 results (5 config keys, one with an interior '/', appearing gradually, file and internal, 4 sub-name slots, 3 units)\", \"exhaustive\": false}\n", n, fails, len(sets), streams)
}
