// Replay / bounded-check driver for package benchproc (injected with
// `go test -overlay`; nothing is written to the repository).  Oracles are
// written from the documented behaviour, independent of the contracts.

package benchproc

import (
	"bytes"
	"encoding/json"
	"fmt"
	"math"
	"os"
	"strconv"
	"strings"
	"testing"

	"golang.org/x/perf/benchfmt"
)

type verifArg struct {
	Name  string  `json:"name"`
	Type  string  `json:"type"`
	Bytes []int   `json:"bytes"`
	Str   *string `json:"str"`
	Int   *string `json:"int"`
	Float *string `json:"float"`
	Bool  *bool   `json:"bool"`
	Cap   int     `json:"cap"`
	Nil   bool    `json:"nil"`
}

type verifInput struct {
	Fn   string     `json:"fn"`
	Args []verifArg `json:"args"`
}

func (a verifArg) bytes() []byte {
	if a.Nil {
		return nil
	}
	b := make([]byte, len(a.Bytes))
	for i, v := range a.Bytes {
		b[i] = byte(v)
	}
	return b
}

// verifRefParts: reference decomposition from the format description.
func verifRefParts(n []byte) (base []byte, parts [][]byte) {
	end := len(n)
	var gomax []byte
	i := len(n)
	for i > 0 && n[i-1] >= '0' && n[i-1] <= '9' {
		i--
	}
	if i > 0 && i < len(n) && n[i-1] == '-' {
		gomax = n[i-1:]
		end = i - 1
	}
	buf := n[:end]
	prev := 0
	first := true
	for j := 0; j < len(buf); j++ {
		if buf[j] == '/' {
			if first {
				base = buf[:j]
				first = false
			} else {
				parts = append(parts, buf[prev:j])
			}
			prev = j
		}
	}
	if first {
		base = buf
	} else {
		parts = append(parts, buf[prev:])
	}
	if gomax != nil {
		parts = append(parts, gomax)
	}
	return
}

// verifRefExtract: the value of key for a name, from the documentation.
func verifRefExtract(name []byte, key string) []byte {
	base, parts := verifRefParts(name)
	switch {
	case key == ".name":
		return base
	case key == ".fullname":
		return name
	case strings.HasPrefix(key, "/"):
		if key == "/gomaxprocs" && len(parts) > 0 {
			last := parts[len(parts)-1]
			if last[0] == '-' {
				return last[1:]
			}
		}
		for _, p := range parts {
			if bytes.HasPrefix(p, []byte(key+"=")) {
				return p[len(key)+1:]
			}
		}
		return nil
	}
	return nil
}

func verifCheckExtract(name []byte, key string) error {
	ext, err := newExtractor(key)
	if err != nil {
		return fmt.Errorf("newExtractor(%q): %v", key, err)
	}
	res := &benchfmt.Result{Name: benchfmt.Name(append([]byte(nil), name...))}
	got := ext(res)
	want := verifRefExtract(name, key)
	if !bytes.Equal(got, want) {
		return fmt.Errorf("extract %q from %q = %q, want %q", key, name, got, want)
	}
	return nil
}

func TestVerifReplay(t *testing.T) {
	path := os.Getenv("VERIF_REPLAY_INPUT")
	if path == "" {
		t.Skip("no replay input")
	}
	data, err := os.ReadFile(path)
	if err != nil {
		t.Fatal(err)
	}
	var in verifInput
	if err := json.Unmarshal(data, &in); err != nil {
		t.Fatal(err)
	}
	switch in.Fn {
	default:
		t.Log("NO-ORACLE for", in.Fn)
	}
}

func TestVerifBounded(t *testing.T) {
	which := os.Getenv("VERIF_BOUNDED")
	tier := os.Getenv("VERIF_TIER")
	switch which {
	case "extract":
		maxLen := 6
		if tier == "thorough" {
			maxLen = 8
		}
		alpha := []byte("ab/-=1")
		keys := []string{".name", ".fullname", "/a", "/b", "/gomaxprocs", "/ab", "/a=b", "/1"}
		n, fails := 0, 0
		var rec func(buf []byte)
		rec = func(buf []byte) {
			for _, k := range keys {
				n++
				if err := verifCheckExtract(buf, k); err != nil {
					fails++
					if fails <= 10 {
						t.Errorf("REPLAY-FAIL %v", err)
					}
				}
			}
			if len(buf) == maxLen {
				return
			}
			for _, c := range alpha {
				rec(append(buf, c))
			}
		}
		rec(make([]byte, 0, maxLen))
		fmt.Printf("BOUNDED-RESULT {\"cases\": %d, \"failures\": %d, \"bound\": \"all names of length <= %d over {a b / - = 1} x %d keys\", \"exhaustive\": true}\n", n, fails, maxLen, len(keys))
	case "keyorder":
		verifKeyOrder(t, tier)
	default:
		t.Skip("unknown bounded check " + which)
	}
}

// verifRefNum: the documented 'num' reading — a float, or digits with an SI
// (k K M G T P E Z Y) or IEC (Ki … Yi) prefix and an optional b/B.
func verifRefNum(x string) (float64, bool) {
	if v, err := strconv.ParseFloat(x, 64); err == nil {
		return v, true
	}
	i := 0
	for i < len(x) && (x[i] >= '0' && x[i] <= '9' || x[i] == '.') {
		i++
	}
	if i == 0 {
		return 0, false
	}
	v, err := strconv.ParseFloat(x[:i], 64)
	if err != nil {
		return 0, false
	}
	rest := x[i:]
	exp := 0
	if len(rest) > 0 {
		if j := strings.IndexByte("kKMGTPEZY", rest[0]); j >= 0 {
			exp = j
			if j == 0 {
				exp = 1
			}
			rest = rest[1:]
		}
	}
	base := 1000.0
	if exp > 0 && strings.HasPrefix(rest, "i") {
		base = 1024
		rest = rest[1:]
	}
	if rest == "b" || rest == "B" {
		rest = ""
	}
	if rest != "" {
		return 0, false
	}
	return v * math.Pow(base, float64(exp)), true
}

func verifKeyOrder(t *testing.T, tier string) {
	n, fails := 0, 0
	bad := func(f string, args ...any) {
		fails++
		if fails <= 12 {
			t.Errorf("REPLAY-FAIL "+f, args...)
		}
	}
	mkResult := func(name string, cfg ...string) *benchfmt.Result {
		r := &benchfmt.Result{Name: benchfmt.Name(name)}
		for i := 0; i+1 < len(cfg); i += 2 {
			r.Config = append(r.Config, benchfmt.Config{Key: cfg[i], Value: []byte(cfg[i+1]), File: true})
		}
		return r
	}
	// order axioms + arrangement independence on a set of keys
	checkOrder := func(what string, keys []Key) {
		for i, a := range keys {
			n++
			if a.Less(a) {
				bad("%s: %v < itself", what, a)
			}
			for j, b := range keys {
				if i != j && a != b {
					if a.Less(b) == b.Less(a) {
						bad("%s: %v and %v: Less is %v both ways", what, a, b, a.Less(b))
					}
					for _, c := range keys {
						if a.Less(b) && b.Less(c) && !a.Less(c) {
							bad("%s: not transitive on %v %v %v", what, a, b, c)
						}
					}
				}
			}
		}
		if len(keys) == 0 {
			return
		}
		want := append([]Key(nil), keys...)
		SortKeys(want)
		for i := 0; i+1 < len(want); i++ {
			if want[i+1].Less(want[i]) {
				bad("%s: SortKeys output not sorted at %d", what, i)
			}
		}
		for rot := 1; rot < len(keys); rot++ {
			got := append(append([]Key(nil), keys[rot:]...), keys[:rot]...)
			SortKeys(got)
			for i := range got {
				if got[i] != want[i] {
					bad("%s: sorting rotation %d gives a different sequence", what, rot)
					break
				}
			}
		}
	}
	distinct := func(keys []Key) []Key {
		seen := map[Key]bool{}
		var out []Key
		for _, k := range keys {
			if !seen[k] {
				seen[k] = true
				out = append(out, k)
			}
		}
		return out
	}
	// 1. single-field semantics
	single := func(expr string, vals []string, before func(a, b string) (bool, bool)) {
		var pp ProjectionParser
		f, _ := NewFilter("*")
		proj, err := pp.Parse(expr, f)
		if err != nil {
			bad("Parse(%q): %v", expr, err)
			return
		}
		var keys []Key
		for _, v := range vals {
			keys = append(keys, proj.Project(mkResult("X", "k", v)))
		}
		keys = distinct(keys)
		fld := proj.Fields()[0]
		for _, a := range keys {
			for _, b := range keys {
				if a == b {
					continue
				}
				n++
				if want, decided := before(a.Get(fld), b.Get(fld)); decided && a.Less(b) != want {
					bad("%s: %q before %q = %v, want %v", expr, a.Get(fld), b.Get(fld), a.Less(b), want)
				}
			}
		}
		checkOrder(expr, keys)
	}
	strs := []string{"b", "a", "", "B", "ab", "a b", "10", "9", "z"}
	single("k@alpha", strs, func(a, b string) (bool, bool) { return a < b, true })
	nums := []string{"3", "1Ki", "1Zi", "1Yi", "1Ei", "2Mi", "1Y", "1Z", "1k", "1K", "1M", "2.5G", "1T", "1P", "1E", "NaN", "x", "y", "1e3", "1000", "1kB", "7b", "-1", "+Inf"}
	single("k@num", nums, func(a, b string) (bool, bool) {
		x, xok := verifRefNum(a)
		y, yok := verifRefNum(b)
		switch {
		case xok && !yok:
			return true, true
		case !xok && yok:
			return false, true
		case !xok && !yok:
			return false, false
		}
		if math.IsNaN(x) || math.IsNaN(y) {
			if math.IsNaN(x) && math.IsNaN(y) {
				return false, false
			}
			return math.IsNaN(y), true
		}
		if x == y {
			return false, false
		}
		return x < y, true
	})
	fixed := []string{"c", "a", "b"}
	single("k@(c a b)", []string{"a", "b", "c", "a", "c"}, func(a, b string) (bool, bool) {
		ia, ib := -1, -1
		for i, v := range fixed {
			if v == a {
				ia = i
			}
			if v == b {
				ib = i
			}
		}
		return ia < ib, true
	})
	first := []string{"q", "z", "a", "m", "z", "b", "a"}
	rank := map[string]int{}
	for _, v := range first {
		if _, ok := rank[v]; !ok {
			rank[v] = len(rank)
		}
	}
	single("k", first, func(a, b string) (bool, bool) { return rank[a] < rank[b], true })
	// 2. first-observation order inside .config, with keys appearing late and a flatten before any field exists
	for _, early := range []bool{false, true} {
		for _, expr := range []string{".config", ".config@alpha", ".name,.config", "k2,.config"} {
			var pp ProjectionParser
			f, _ := NewFilter("*")
			proj, err := pp.Parse(expr, f)
			if err != nil {
				bad("Parse(%q): %v", expr, err)
				continue
			}
			var keys []Key
			if early {
				keys = append(keys, proj.Project(mkResult("E")))
				proj.FlattenedFields()
				SortKeys(keys)
			}
			obs := [][]string{{"k1", "z"}, {"k1", "a"}, {"k1", "m", "k2", "y"}, {"k1", "a", "k2", "b"}, {"k2", "y"}, {"k1", "z", "k3", "c"}}
			for _, o := range obs {
				keys = append(keys, proj.Project(mkResult("N", o...)))
			}
			keys = distinct(keys)
			if len(proj.FlattenedFields()) < 3 {
				bad("%s early=%v: FlattenedFields has %d fields after 3 config keys were seen", expr, early, len(proj.FlattenedFields()))
			}
			checkOrder(fmt.Sprintf("%s early=%v", expr, early), keys)
			// per-key order of the .config sub-field k1: first observation z, a, m unless @alpha
			var k1 *Field
			for _, fl := range proj.FlattenedFields() {
				if fl.Name == "k1" {
					k1 = fl
				}
			}
			if k1 != nil && expr != "k2,.config" {
				want := map[string]int{"z": 0, "a": 1, "m": 2}
				if strings.Contains(expr, "@alpha") {
					want = map[string]int{"a": 0, "m": 1, "z": 2}
				}
				for _, a := range keys {
					for _, b := range keys {
						va, vb := a.Get(k1), b.Get(k1)
						ra, oka := want[va]
						rb, okb := want[vb]
						if oka && okb && va != vb && (expr != ".name,.config" || a.Get(proj.Fields()[0]) == b.Get(proj.Fields()[0])) {
							n++
							if a.Less(b) != (ra < rb) {
								bad("%s early=%v: k1=%q before k1=%q is %v, want %v", expr, early, va, vb, a.Less(b), ra < rb)
							}
						}
					}
				}
			}
		}
	}
	fmt.Printf("BOUNDED-RESULT {\"cases\": %d, \"failures\": %d, \"bound\": \"single-field orders (alpha over 9 strings, num over 24 spellings incl. every SI/IEC prefix, fixed list, first observation) against reference semantics; .config sub-field observation order with late keys and an early flatten, 4 projections; order axioms and arrangement independence of SortKeys on every key set\", \"exhaustive\": false}\n", n, fails)
}
