// Replay / bounded driver for package db (C19): the query algebra against
// brute-force evaluation.  Injected with `go test -overlay`.

package db

import (
	"encoding/json"
	"fmt"
	"io"
	"os"
	"strconv"
	"testing"
)

type verifArg struct {
	Name  string  `json:"name"`
	Str   *string `json:"str"`
	Int   *string `json:"int"`
	Bytes []int   `json:"bytes"`
}

type verifInput struct {
	Fn   string     `json:"fn"`
	Args []verifArg `json:"args"`
}

func verifSat(p part, v string) bool {
	switch p.operator {
	case equals:
		return v == p.value
	case lt:
		return v < p.value
	case gt:
		return v > p.value
	case ltgt:
		return v < p.value && v > p.value2
	}
	panic("bad operator")
}

func verifCheckMerge(p, p2 part, cands []string) error {
	r, err := p.merge(p2)
	if err != nil && err != io.EOF {
		return fmt.Errorf("merge(%+v, %+v): unexpected error %v", p, p2, err)
	}
	for _, v := range cands {
		if v == "" {
			continue
		}
		both := verifSat(p, v) && verifSat(p2, v)
		if err == io.EOF && both {
			return fmt.Errorf("merge(%+v, %+v) reports a contradiction but %q satisfies both", p, p2, v)
		}
		if err == nil && verifSat(r, v) != both {
			return fmt.Errorf("merge(%+v, %+v) = %+v: value %q satisfies merged=%v, both=%v", p, p2, r, v, verifSat(r, v), both)
		}
	}
	return nil
}

func verifCands(vals ...string) []string {
	seen := map[string]bool{}
	var out []string
	add := func(s string) {
		if !seen[s] {
			seen[s] = true
			out = append(out, s)
		}
	}
	for _, v := range vals {
		add(v)
		add(v + "\x00")
		add(v + "a")
		if len(v) > 0 {
			add(v[:len(v)-1])
			b := []byte(v)
			if b[len(b)-1] > 0 {
				b[len(b)-1]--
				add(string(b) + "\xff")
			}
		}
	}
	add("\x00")
	add("\xff\xff")
	return out
}

func TestVerifReplay(t *testing.T) {
	path := os.Getenv("VERIF_REPLAY_INPUT")
	if path == "" {
		t.Skip("no replay input")
	}
	data, _ := os.ReadFile(path)
	var in verifInput
	if err := json.Unmarshal(data, &in); err != nil {
		t.Fatal(err)
	}
	if in.Fn != "storage/db.part.merge" {
		t.Log("NO-ORACLE for", in.Fn)
		return
	}
	get := func(name string) string {
		for _, a := range in.Args {
			if a.Name == name && a.Str != nil {
				return *a.Str
			}
		}
		return ""
	}
	op := func(name string) operation {
		for _, a := range in.Args {
			if a.Name == name && a.Int != nil {
				n, _ := strconv.Atoi(*a.Int)
				return operation(n)
			}
		}
		return 0
	}
	p := part{get("p.key"), op("p.operator"), get("p.value"), get("p.value2")}
	p2 := part{get("p2.key"), op("p2.operator"), get("p2.value"), get("p2.value2")}
	if err := verifCheckMerge(p, p2, verifCands(p.value, p.value2, p2.value, p2.value2)); err != nil {
		t.Errorf("REPLAY-FAIL %v", err)
	}
}

func TestVerifBounded(t *testing.T) {
	if os.Getenv("VERIF_BOUNDED") != "merge" {
		t.Skip("unknown bounded check")
	}
	vals := []string{"", "a", "a\x00", "b", "c"}
	var parts []part
	for _, v := range vals {
		parts = append(parts, part{"k", equals, v, ""}, part{"k", lt, v, ""}, part{"k", gt, v, ""})
		for _, v2 := range vals {
			if v2 < v && v2 != "" {
				parts = append(parts, part{"k", ltgt, v, v2})
			}
		}
	}
	cands := verifCands(vals...)
	n, fails := 0, 0
	bad := func(err error) {
		fails++
		if fails <= 10 {
			t.Errorf("REPLAY-FAIL %v", err)
		}
	}
	for _, a := range parts {
		for _, b := range parts {
			n++
			if err := verifCheckMerge(a, b, cands); err != nil {
				bad(err)
				continue
			}
			// three terms on one key: ((a merge b) merge c)
			ab, err := a.merge(b)
			if err != nil {
				continue
			}
			for _, c := range parts {
				n++
				r, err := ab.merge(c)
				for _, v := range cands {
					if v == "" {
						continue
					}
					all := verifSat(a, v) && verifSat(b, v) && verifSat(c, v)
					if err == io.EOF && all {
						bad(fmt.Errorf("(%+v merge %+v) merge %+v reports a contradiction but %q satisfies all three", a, b, c, v))
						break
					}
					if err == nil && verifSat(r, v) != all {
						bad(fmt.Errorf("(%+v merge %+v) merge %+v = %+v: value %q merged=%v all=%v", a, b, c, r, v, verifSat(r, v), all))
						break
					}
				}
			}
		}
	}
	// parseQuery end to end: several terms per key
	for _, q := range []string{"k>1 k<5 k<7", "k>1 k<5 k>7", "k<5 k>1 k:3", "k:3 k:3 k<4 k>2", "k<2 k<1", "k>a k>b k<c"} {
		n++
		if _, _, err := parseQuery(q); err != nil && err != io.EOF {
			bad(fmt.Errorf("parseQuery(%q): %v", q, err))
		}
	}
	fmt.Printf("BOUNDED-RESULT {\"cases\": %d, \"failures\": %d, \"bound\": \"all pairs and triples of query parts (=, <, >, range) over the values {empty, a, a\\\\0, b, c}, evaluated by brute force on %d candidate strings\", \"exhaustive\": true}\n", n, fails, len(cands))
}
