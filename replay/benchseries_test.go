// Bounded stand-ins for package benchseries (C18).  Injected with
// `go test -overlay`; nothing is written to the repository.
//
//	series  the real Builder fed one generated result set in several orders: same
//	        outcome for every order, samples equal to an independent selection,
//	        bootstrap summaries reproducible, ordered and inside the attainable range
//	dates   both timestamp formats normalise alike; string order is time order

package benchseries

import (
	"fmt"
	"math"
	"os"
	"sort"
	"strconv"
	"strings"
	"testing"
	"time"

	"golang.org/x/perf/benchfmt"
)

func TestVerifReplay(t *testing.T) { t.Log("NO-ORACLE") }

type verifRow struct {
	goos, exp, role, hash, note, bench string
	vals                               []float64 // one per unit
}

type verifPoint struct {
	date     string
	nu, de   []float64
	hasDe    bool
	numHash  string
	expCount int
}

func verifUlps(a, b float64) float64 {
	if a == b {
		return 0
	}
	return math.Abs(a-b) / (math.Abs(b) * 0x1p-52)
}

func TestVerifBounded(t *testing.T) {
	which := os.Getenv("VERIF_BOUNDED")
	tier := os.Getenv("VERIF_TIER")
	known := "," + os.Getenv("VERIF_KNOWN_CLASSES") + ","
	seed := uint64(7)
	if s := os.Getenv("VERIF_SEED"); s != "" {
		if v, err := strconv.ParseUint(s, 10, 64); err == nil {
			seed = v*2654435761 + 7
		}
	}
	rnd := func(k int) int {
		seed = seed*6364136223846793005 + 1442695040888963407
		return int((seed >> 33) % uint64(k))
	}
	n, fails := 0, 0
	bad := func(f string, args ...any) {
		fails++
		if fails <= 12 {
			t.Errorf("REPLAY-FAIL "+f, args...)
		}
	}
	switch which {
	case "dates":
		cases := 20000
		if tier == "thorough" {
			cases = 400000
		}
		type norm struct {
			t time.Time
			s string
		}
		var all []norm
		for i := 0; i < cases; i++ {
			sec := int64(rnd(4102444800)) // 1970 .. 2100
			if rnd(4) == 0 {
				sec = int64(1600000000 + rnd(40)) // dense region: neighbours one second apart
			}
			tm := time.Unix(sec, 0).UTC()
			a := tm.Format("20060102T150405")
			forms := []string{a, tm.Format(time.RFC3339)}
			off := []int{-11, -7, -1, 0, 2, 5, 9, 13}[rnd(8)]
			forms = append(forms, tm.In(time.FixedZone("x", off*3600+[]int{0, 1800}[rnd(2)])).Format(time.RFC3339))
			var first string
			for k, f := range forms {
				n++
				s, err := NormalizeDateString(f)
				if err != nil {
					bad("NormalizeDateString(%q): %v", f, err)
					continue
				}
				if k == 0 {
					first = s
				} else if s != first {
					bad("the same instant normalises to %q (from %q) and %q (from %q)", first, forms[0], s, f)
				}
				back, err := ParseNormalizedDateString(s)
				if err != nil || !back.Equal(tm) {
					bad("ParseNormalizedDateString(%q) = %v, %v; want %v", s, back, err, tm)
				}
			}
			all = append(all, norm{tm, first})
			// sub-second instants: only the punctuated format carries them
			if rnd(3) == 0 {
				ns := []int64{1, 500000000, 999999999, 120000000}[rnd(4)]
				tn := time.Unix(sec, ns).UTC()
				s, err := NormalizeDateString(tn.Format(time.RFC3339Nano))
				n++
				if err != nil {
					bad("NormalizeDateString(%q): %v", tn.Format(time.RFC3339Nano), err)
				} else {
					all = append(all, norm{tn, s})
				}
			}
		}
		sort.Slice(all, func(i, j int) bool { return all[i].t.Before(all[j].t) })
		for i := 1; i < len(all); i++ {
			n++
			a, b := all[i-1], all[i]
			if a.t.Equal(b.t) {
				if a.s != b.s {
					bad("equal instants, different strings %q %q", a.s, b.s)
				}
			} else if !(a.s < b.s) {
				bad("%v is before %v but %q does not sort before %q", a.t, b.t, a.s, b.s)
			}
		}
		fmt.Printf("BOUNDED-RESULT {\"cases\": %d, \"failures\": %d, \"bound\": \"%d random instants 1970-2100 (a quarter of them within 40 consecutive seconds), each in the unpunctuated format, RFC 3339 UTC and RFC 3339 with one of 16 zone offsets, a third also with a sub-second part\", \"exhaustive\": false}\n", n, fails, cases)
		return
	case "series":
	default:
		t.Skip("unknown bounded check " + which)
	}

	knownUlp := strings.Contains(known, ",interp-ulp,")
	classFails, classExample := 0, ""
	ulpFail := func(f string, args ...any) {
		if knownUlp {
			classFails++
			if classExample == "" {
				classExample = strings.ReplaceAll(fmt.Sprintf(f, args...), " ", "_")
			}
			return
		}
		bad(f, args...)
	}

	// --- the percentile / median helpers on their own --------------------------
	helperCases := 100000
	datasets := 3000
	if tier == "thorough" {
		helperCases = 2000000
		datasets = 60000
	}
	// the code reports disagreeing hash pairs on standard error; not needed here
	if null, err := os.OpenFile(os.DevNull, os.O_WRONLY, 0); err == nil {
		saved := os.Stderr
		os.Stderr = null
		defer func() { os.Stderr = saved; null.Close() }()
	}
	for c := 0; c < helperCases; c++ {
		ln := 1 + rnd(40)
		if rnd(10) == 0 {
			ln = 1 + rnd(3000)
		}
		a := make([]float64, ln)
		base := float64(1+rnd(1000)) / float64(1+rnd(97))
		for i := range a {
			switch rnd(3) {
			case 0:
				a[i] = base
			case 1:
				a[i] = base * (1 + float64(rnd(5))*0x1p-52)
			default:
				a[i] = base * float64(1+rnd(50)) / 7
			}
		}
		sort.Float64s(a)
		var p float64
		switch rnd(6) {
		case 0:
			p = 0
		case 1:
			p = 1 - 0x1p-53 // the largest p below 1: the position must stay inside the slice
		case 2:
			p = (1 - []float64{0.95, 0.9, 0.99, 0.8, 0.5}[rnd(5)]) / 2
		case 3:
			p = 1 - (1-[]float64{0.95, 0.9, 0.99, 0.8, 0.5}[rnd(5)])/2
		default:
			p = float64(rnd(1<<20)) / (1 << 20)
		}
		n++
		idx := int(float64(ln) * p)
		if p < 1 && (idx < 0 || idx >= ln) {
			bad("percentile position: int(float64(%d)*%v) = %d is outside the slice", ln, p, idx)
			continue
		}
		r := percentile(a, p)
		lo, hi := a[idx], a[idx]
		if idx+1 < ln {
			hi = a[idx+1]
		}
		if !(lo <= r && r <= hi) {
			if verifUlps(r, lo) <= 4 || verifUlps(r, hi) <= 4 {
				ulpFail("percentile(n=%d,p=%v)=%v outside [%v,%v]", ln, p, r, lo, hi)
			} else {
				bad("percentile(%d values, %v) = %v, not between the order statistics %v and %v around position %v", ln, p, r, lo, hi, float64(ln)*p)
			}
		}
		n++
		m := median(a)
		mlo, mhi := a[(ln-1)/2], a[ln/2]
		if !(mlo <= m && m <= mhi) {
			bad("median(%v) = %v, not between the middle elements %v and %v", a, m, mlo, mhi)
		}
	}

	// --- whole series -----------------------------------------------------------
	units := []string{"sec/op", "B/op"}
	for ds := 0; ds < datasets; ds++ {
		nUnits := 1 + rnd(2)
		useTable := rnd(2) == 0
		nExp := 1 + rnd(3)
		nHash := 1 + rnd(3)
		dupe := []int{DUPE_REPLACE, DUPE_COMBINE}[rnd(2)]
		base := int64(1577836800 + rnd(1000)*86400)
		// experiments: distinct instants, each written in one of the two accepted formats
		exps := make([]string, nExp)
		for i := range exps {
			tm := time.Unix(base+int64(i*3600+rnd(3000)), 0).UTC()
			if rnd(2) == 0 {
				exps[i] = tm.Format("20060102T150405")
			} else {
				exps[i] = tm.Format(time.RFC3339)
			}
		}
		hashes := make([]string, nHash)
		stamps := map[string]string{}
		for i := range hashes {
			hashes[i] = fmt.Sprintf("h%d%04x", i, rnd(65536))
			tm := time.Unix(base-int64(86400*(i+1))-int64(rnd(5000)), 0).UTC()
			if rnd(2) == 0 {
				stamps[hashes[i]] = tm.Format("20060102T150405")
			} else {
				stamps[hashes[i]] = tm.Format(time.RFC3339)
			}
		}
		// measurements of very different magnitudes (seconds per byte can be 1e-13):
		// the ratios are the same, whatever the scale
		scale := []float64{1, 1, 1e-13, 1e-7, 1e9}[rnd(5)]
		var rows []verifRow
		nRows := 2 + rnd(14)
		for i := 0; i < nRows; i++ {
			r := verifRow{goos: []string{"linux", "darwin"}[rnd(2)], exp: exps[rnd(nExp)], hash: hashes[rnd(nHash)], bench: []string{"A", "B"}[rnd(2)], note: []string{"", "x", "y"}[rnd(3)]}
			switch rnd(7) {
			case 0:
				r.role = "other"
			case 1:
				r.role = ""
			case 2, 3:
				r.role = "baseline"
			default:
				r.role = "experiment"
			}
			for u := 0; u < nUnits; u++ {
				r.vals = append(r.vals, float64(1+rnd(9))*[]float64{1, 0.5, 1.25, 100}[rnd(4)]*scale)
			}
			rows = append(rows, r)
		}
		// the combine policy dereferences the baseline of every trial it merges:
		// give every trial that has a test a baseline measurement as well
		type trialID struct{ goos, exp, bench string }
		hasBase := map[trialID]bool{}
		for _, r := range rows {
			if r.role == "baseline" {
				hasBase[trialID{r.goos, r.exp, r.bench}] = true
			}
		}
		if dupe == DUPE_COMBINE {
			for _, r := range append([]verifRow(nil), rows...) {
				id := trialID{r.goos, r.exp, r.bench}
				if r.role == "experiment" && !hasBase[id] {
					hasBase[id] = true
					b := r
					b.role = "baseline"
					b.vals = append([]float64(nil), r.vals...)
					for k := range b.vals {
						b.vals[k] = float64(1+rnd(9)) * scale
					}
					rows = append(rows, b)
				}
			}
		}
		toResult := func(r verifRow) *benchfmt.Result {
			cfg := func(k, v string) benchfmt.Config { return benchfmt.Config{Key: k, Value: []byte(v), File: true} }
			res := &benchfmt.Result{Name: []byte(r.bench), Iters: 1}
			res.Config = append(res.Config, cfg("goos", r.goos), cfg("runstamp", r.exp))
			if r.role != "" {
				res.Config = append(res.Config, cfg("toolchain", r.role))
			}
			res.Config = append(res.Config, cfg("experiment-commit", r.hash), cfg("experiment-commit-time", stamps[r.hash]))
			// the denominator hash of a trial is that of its baseline measurements;
			// other records may lack the key or disagree (decided by the record's values,
			// so that a row turns into the same result every time)
			switch {
			case r.role == "baseline":
				res.Config = append(res.Config, cfg("baseline-commit", "dddd"))
			case int(r.vals[0]*4)%3 == 0:
				res.Config = append(res.Config, cfg("baseline-commit", "ffff"))
			case int(r.vals[0]*4)%3 == 1:
				res.Config = append(res.Config, cfg("baseline-commit", "dddd"))
			}
			if r.note != "" {
				res.Config = append(res.Config, cfg("note", r.note))
			}
			for u, v := range r.vals {
				res.Values = append(res.Values, benchfmt.Value{Value: v, Unit: units[u]})
			}
			return res
		}
		build := func(order []int, conf float64, N int) (string, []*ComparisonSeries, bool) {
			opts := DefaultBuilderOptions()
			if useTable {
				opts.Table = "goos"
			} else {
				opts.Ignore += ",goos"
			}
			opts.Warn = func(string, ...interface{}) {}
			b, err := NewBuilder(opts)
			if err != nil {
				bad("NewBuilder: %v", err)
				return "", nil, false
			}
			for _, i := range order {
				b.Add(toResult(rows[i]))
			}
			css, err := b.AllComparisonSeries(nil, dupe)
			if err != nil {
				bad("AllComparisonSeries: %v", err)
				return "", nil, false
			}
			var sb strings.Builder
			for _, cs := range css {
				cs.AddSummaries(conf, N)
				fmt.Fprintf(&sb, "unit %q benchmarks %q series %q\n", cs.Unit, cs.Benchmarks, cs.Series)
				var hp []string
				for k, v := range cs.HashPairs {
					hp = append(hp, fmt.Sprintf("%s=%s/%s", k, v.NumHash, v.DenHash))
				}
				sort.Strings(hp)
				fmt.Fprintf(&sb, " hashpairs %q\n", hp)
				for si, s := range cs.Series {
					for bi, bn := range cs.Benchmarks {
						c, ok := cs.ComparisonAt(bn, s)
						if !ok {
							continue
						}
						fmt.Fprintf(&sb, " cell %s %s date %s", bn, s, c.Date)
						// samples are compared as multisets (a point without a
						// denominator keeps its numerator in order of arrival)
						srt := func(v []float64) []float64 {
							v = append([]float64(nil), v...)
							sort.Float64s(v)
							return v
						}
						if c.Numerator != nil {
							fmt.Fprintf(&sb, " nu %v", srt(c.Numerator.Values))
						}
						if c.Denominator != nil {
							fmt.Fprintf(&sb, " de %v", srt(c.Denominator.Values))
						}
						sum := cs.Summaries[si][bi]
						fmt.Fprintf(&sb, " sum %v %x %x %x\n", sum.Present, math.Float64bits(sum.Low), math.Float64bits(sum.Center), math.Float64bits(sum.High))
					}
				}
			}
			return sb.String(), css, true
		}
		conf := []float64{0.95, 0.9, 0.8, 0.5, 0.99}[rnd(5)]
		N := []int{100, 250, 37, 64}[rnd(4)]
		order := make([]int, len(rows))
		for i := range order {
			order[i] = i
		}
		ref, css, ok := build(order, conf, N)
		if !ok {
			continue
		}
		for k := -1; k < 4; k++ {
			perm := append([]int(nil), order...)
			if k == -1 {
				// the same order once more: the outcome may not depend on anything but the input
			} else if k == 0 {
				for i, j := 0, len(perm)-1; i < j; i, j = i+1, j-1 {
					perm[i], perm[j] = perm[j], perm[i]
				}
			} else {
				for i := len(perm) - 1; i > 0; i-- {
					j := rnd(i + 1)
					perm[i], perm[j] = perm[j], perm[i]
				}
			}
			n++
			got, _, ok := build(perm, conf, N)
			if ok && got != ref {
				bad("data set %d (policy %d): adding the same %d results in order %v gives a different outcome\n--- in order\n%s--- permuted\n%s", ds, dupe, len(rows), perm, ref, got)
				break
			}
		}
		// independent selection of what every point must hold
		for u := 0; u < nUnits; u++ {
			for _, goos := range []string{"linux", "darwin", ""} {
				if useTable != (goos != "") {
					continue
				}
				name := units[u]
				if goos != "" {
					name += " " + goos
				}
				match := func(r verifRow) bool { return goos == "" || r.goos == goos }
				benches := map[string]bool{}
				want := map[SeriesKey]*verifPoint{}
				anyBase := map[string]bool{} // series with a trial that has both a test and a baseline
				anyRow := false
				for _, r := range rows {
					if match(r) {
						anyRow = true
						benches[r.bench] = true
					}
				}
				// trials in ascending experiment time
				type tr struct {
					exp, norm string
				}
				var trs []tr
				for _, e := range exps {
					ne, _ := NormalizeDateString(e)
					trs = append(trs, tr{e, ne})
				}
				sort.Slice(trs, func(i, j int) bool { return trs[i].norm < trs[j].norm })
				for bn := range benches {
					for _, h := range hashes {
						ser, _ := NormalizeDateString(stamps[h])
						for _, e := range trs {
							var nu, de []float64
							for _, r := range rows {
								if !match(r) || r.bench != bn || r.exp != e.exp {
									continue
								}
								if r.role == "experiment" && r.hash == h {
									nu = append(nu, r.vals[u])
								}
								if r.role == "baseline" {
									de = append(de, r.vals[u])
								}
							}
							if len(nu) == 0 {
								continue
							}
							if len(de) > 0 {
								anyBase[ser] = true
							}
							sk := SeriesKey{Benchmark: bn, Series: ser}
							p := want[sk]
							if p == nil || dupe == DUPE_REPLACE {
								// ascending time: the latest experiment is the last one seen
								want[sk] = &verifPoint{date: e.norm, nu: nu, de: de, hasDe: len(de) > 0, numHash: h}
							} else {
								p.nu = append(p.nu, nu...)
								p.de = append(p.de, de...)
								p.date = e.norm
							}
						}
					}
				}
				var cs *ComparisonSeries
				for _, c := range css {
					if c.Unit == name {
						cs = c
					}
				}
				n++
				if cs == nil {
					if anyRow {
						bad("data set %d: no comparison series for unit/table %q", ds, name)
					}
					continue
				}
				var wb []string
				for b := range benches {
					wb = append(wb, b)
				}
				sort.Strings(wb)
				if fmt.Sprint(wb) != fmt.Sprint(cs.Benchmarks) {
					bad("data set %d, %q: benchmarks %v, want %v", ds, name, cs.Benchmarks, wb)
				}
				wser := map[string]bool{}
				for sk := range want {
					wser[sk.Series] = true
				}
				var ws []string
				for s := range wser {
					ws = append(ws, s)
				}
				sort.Strings(ws)
				if fmt.Sprint(ws) != fmt.Sprint(cs.Series) {
					bad("data set %d, %q: series %v, want %v", ds, name, cs.Series, ws)
				}
				if len(cs.cells) != len(want) {
					bad("data set %d, %q: %d series points, want %d", ds, name, len(cs.cells), len(want))
				}
				for sk, w := range want {
					n++
					c, ok := cs.ComparisonAt(sk.Benchmark, sk.Series)
					if !ok {
						bad("data set %d, %q: point %v is missing", ds, name, sk)
						continue
					}
					sort.Float64s(w.nu)
					sort.Float64s(w.de)
					var gnu, gde []float64
					if c.Numerator != nil {
						gnu = append(gnu, c.Numerator.Values...)
					}
					if c.Denominator != nil {
						gde = append(gde, c.Denominator.Values...)
					}
					sort.Float64s(gnu)
					sort.Float64s(gde)
					if fmt.Sprint(gnu) != fmt.Sprint(w.nu) || fmt.Sprint(gde) != fmt.Sprint(w.de) {
						bad("data set %d (policy %d), %q point %v: numerator %v denominator %v, want %v and %v", ds, dupe, name, sk, gnu, gde, w.nu, w.de)
					}
					if c.Date != w.date {
						bad("data set %d (policy %d), %q point %v: date %q, want %q", ds, dupe, name, sk, c.Date, w.date)
					}
					// the denominator hash is that of the baseline measurements of the
					// trials behind the series point (none: empty)
					wantDen := ""
					if anyBase[sk.Series] {
						wantDen = "dddd"
					}
					if hp := cs.HashPairs[sk.Series]; hp.NumHash != w.numHash || hp.DenHash != wantDen {
						bad("data set %d, %q point %v: hash pair %+v, want %s/%s", ds, name, sk, hp, w.numHash, wantDen)
					}
					sum, ok := cs.SummaryAt(sk.Benchmark, sk.Series)
					if !ok || sum == nil {
						bad("data set %d, %q point %v: no summary", ds, name, sk)
						continue
					}
					if sum.Present != w.hasDe {
						bad("data set %d, %q point %v: summary present = %v with %d denominator values", ds, name, sk, sum.Present, len(w.de))
					}
					if !sum.Present {
						continue
					}
					n++
					lo, ce, hi := sum.Low, sum.Center, sum.High
					if math.IsNaN(lo) || math.IsNaN(ce) || math.IsNaN(hi) {
						bad("data set %d, %q point %v: summary %v %v %v", ds, name, sk, lo, ce, hi)
						continue
					}
					min, max := w.nu[0]/w.de[len(w.de)-1], w.nu[len(w.nu)-1]/w.de[0]
					if !(lo <= ce && ce <= hi && min <= lo && hi <= max) {
						if (lo <= ce || verifUlps(lo, ce) <= 4) && (ce <= hi || verifUlps(hi, ce) <= 4) && (min <= lo || verifUlps(lo, min) <= 4) && (hi <= max || verifUlps(hi, max) <= 4) {
							ulpFail("confidence=%v,N=%d,nu=%v,de=%v:low=%v,centre=%v,high=%v", conf, N, w.nu, w.de, lo, ce, hi)
						} else {
							bad("data set %d, %q point %v (confidence %v, %d resamples, numerator %v, denominator %v): low %v centre %v high %v; attainable ratios [%v, %v]", ds, name, sk, conf, N, w.nu, w.de, lo, ce, hi, min, max)
						}
					}
				}
			}
		}
	}
	if knownUlp {
		fmt.Printf("KNOWN-CLASS interp-ulp %d %s\n", classFails, classExample)
	}
	fmt.Printf("BOUNDED-RESULT {\"cases\": %d, \"failures\": %d, \"bound\": \"%d sorted slices (1-40, a tenth up to 3000 values; p in {0, 1-2^-53, the two tails of five confidence levels, k/2^20}) for percentile and median; %d generated result sets (1-2 units, optional goos table, 2 benchmarks, 1-3 experiments and 1-3 hashes with stamps in either format, roles baseline/experiment/other/unset, both duplicate policies, 2-16 results, magnitudes from 1e-13 to 1e9) each added in 6 orders (the first one twice), bootstrapped with confidence in {0.5..0.99} and 37-250 resamples\", \"exhaustive\": false}\n", n, fails, helperCases, datasets)
}
