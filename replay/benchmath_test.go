// Bounded stand-ins for package benchmath (C13).  Injected with
// `go test -overlay`; nothing is written to the repository.

package benchmath

import (
	"fmt"
	"math"
	"os"
	"sort"
	"strings"
	"testing"
)

func TestVerifReplay(t *testing.T) { t.Log("NO-ORACLE") }

// verifExactTwoSidedP: the exact permutation p-value of the rank-sum statistic
// for untied samples: twice the smaller tail probability of U over all equally
// likely assignments of the pooled values to the two groups, capped at 1.
func verifExactTwoSidedP(a, b []float64) float64 {
	pool := append(append([]float64(nil), a...), b...)
	n1 := len(a)
	uOf := func(sel []int) float64 {
		in := make([]bool, len(pool))
		for _, i := range sel {
			in[i] = true
		}
		u := 0.0
		for i := range pool {
			if !in[i] {
				continue
			}
			for j := range pool {
				if in[j] {
					continue
				}
				if pool[i] > pool[j] {
					u++
				} else if pool[i] == pool[j] {
					u += 0.5
				}
			}
		}
		return u
	}
	var obsSel []int
	for i := 0; i < n1; i++ {
		obsSel = append(obsSel, i)
	}
	obs := uOf(obsSel)
	total, le, ge := 0, 0, 0
	var rec func(start int, sel []int)
	rec = func(start int, sel []int) {
		if len(sel) == n1 {
			total++
			u := uOf(sel)
			if u <= obs {
				le++
			}
			if u >= obs {
				ge++
			}
			return
		}
		for i := start; i < len(pool); i++ {
			rec(i+1, append(sel, i))
		}
	}
	rec(0, nil)
	p := 2 * math.Min(float64(le), float64(ge)) / float64(total)
	return math.Min(1, p)
}

func verifHasTies(a, b []float64) bool {
	seen := map[float64]bool{}
	for _, v := range append(append([]float64(nil), a...), b...) {
		if seen[v] {
			return true
		}
		seen[v] = true
	}
	return false
}

func TestVerifBounded(t *testing.T) {
	which := os.Getenv("VERIF_BOUNDED")
	tier := os.Getenv("VERIF_TIER")
	knownTies := strings.Contains(","+os.Getenv("VERIF_KNOWN_CLASSES")+",", ",ties,")
	if which != "compare" {
		t.Skip("unknown bounded check " + which)
	}
	maxN := 3
	if tier == "thorough" {
		maxN = 4
	}
	alphabet := []float64{1, 2, 3, 5}
	var samples [][]float64
	var gen func(cur []float64, start int)
	gen = func(cur []float64, start int) {
		if len(cur) > 0 {
			samples = append(samples, append([]float64(nil), cur...))
		}
		if len(cur) == maxN {
			return
		}
		for i := start; i < len(alphabet); i++ {
			gen(append(cur, alphabet[i]), i) // multisets (non-decreasing)
		}
	}
	gen(nil, 0)
	n, fails, tieFails := 0, 0, 0
	tieExample := ""
	report := func(a, b []float64, f string, args ...any) {
		msg := fmt.Sprintf(f, args...)
		if verifHasTies(a, b) && knownTies {
			tieFails++
			if tieExample == "" {
				tieExample = strings.ReplaceAll(fmt.Sprintf("%v_vs_%v:%s", a, b, msg), " ", "_")
			}
			return
		}
		fails++
		if fails <= 10 {
			t.Errorf("REPLAY-FAIL AssumeNothing.Compare(%v, %v): %s", a, b, msg)
		}
	}
	th := DefaultThresholds
	for _, a := range samples {
		for _, b := range samples {
			n++
			s1 := NewSample(append([]float64(nil), a...), &th)
			s2 := NewSample(append([]float64(nil), b...), &th)
			c12 := AssumeNothing.Compare(s1, s2)
			c21 := AssumeNothing.Compare(s2, s1)
			if c12.N1 != len(a) || c12.N2 != len(b) {
				report(a, b, "sizes %d+%d", c12.N1, c12.N2)
			}
			if !(c12.P >= 0 && c12.P <= 1) {
				report(a, b, "p=%v outside [0,1]", c12.P)
			}
			if c12.P != c21.P {
				report(a, b, "p=%v but swapped p=%v", c12.P, c21.P)
			}
			if c12.Alpha != th.CompareAlpha {
				report(a, b, "alpha=%v", c12.Alpha)
			}
			// reordering each sample and a common positive rescaling change nothing
			ra := append([]float64(nil), a...)
			sort.Sort(sort.Reverse(sort.Float64Slice(ra)))
			sa := make([]float64, len(a))
			sb := make([]float64, len(b))
			for i, v := range a {
				sa[i] = v * 8
			}
			for i, v := range b {
				sb[i] = v * 8
			}
			if c := AssumeNothing.Compare(NewSample(ra, &th), NewSample(append([]float64(nil), b...), &th)); c.P != c12.P {
				report(a, b, "p changes under reordering: %v vs %v", c.P, c12.P)
			}
			if c := AssumeNothing.Compare(NewSample(sa, &th), NewSample(sb, &th)); c.P != c12.P {
				report(a, b, "p changes under rescaling: %v vs %v", c.P, c12.P)
			}
			if !verifHasTies(a, b) && len(c12.Warnings) == 0 || (!verifHasTies(a, b) && c12.P < 1) {
				if want := verifExactTwoSidedP(a, b); math.Abs(want-c12.P) > 1e-12 && !verifHasTies(a, b) {
					report(a, b, "p=%v, exact permutation p=%v", c12.P, want)
				}
			}
		}
	}
	if knownTies {
		fmt.Printf("KNOWN-CLASS ties %d %s\n", tieFails, tieExample)
	}
	fmt.Printf("BOUNDED-RESULT {\"cases\": %d, \"failures\": %d, \"bound\": \"all pairs of multisets of size <= %d over {1,2,3,5}: sizes, p in [0,1], swap symmetry, reordering and x8 rescaling invariance, threshold carried, exact permutation p-value for untied pairs\", \"exhaustive\": true}\n", n, fails, maxN)
}
