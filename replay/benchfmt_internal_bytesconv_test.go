// Bounded stand-in for package bytesconv (C03): differential check against the
// standard library over a stated, enumerated corpus.  Injected with
// `go test -overlay`; nothing is written to the repository.

package bytesconv

import (
	"errors"
	"fmt"
	"math"
	"math/big"
	"math/rand"
	"os"
	"strconv"
	"strings"
	"testing"
)

func verifErrKind(err error) string {
	if err == nil {
		return "nil"
	}
	var ne *NumError
	if errors.As(err, &ne) {
		switch ne.Err {
		case ErrRange:
			return "range"
		case ErrSyntax:
			return "syntax"
		}
		return "other"
	}
	var se *strconv.NumError
	if errors.As(err, &se) {
		switch se.Err {
		case strconv.ErrRange:
			return "range"
		case strconv.ErrSyntax:
			return "syntax"
		}
		return "other"
	}
	return "other"
}

func verifCheckFloat(s string) error {
	got, gerr := ParseFloat([]byte(s), 64)
	want, werr := strconv.ParseFloat(s, 64)
	if verifErrKind(gerr) != verifErrKind(werr) {
		return fmt.Errorf("ParseFloat(%q): error %v, strconv %v", s, gerr, werr)
	}
	if math.Float64bits(got) != math.Float64bits(want) && !(math.IsNaN(got) && math.IsNaN(want)) {
		return fmt.Errorf("ParseFloat(%q) = %x (%v), strconv %x (%v)", s, math.Float64bits(got), got, math.Float64bits(want), want)
	}
	return nil
}

func verifCheckInt(s string) error {
	got, gerr := Atoi([]byte(s))
	want, werr := strconv.Atoi(s)
	if verifErrKind(gerr) != verifErrKind(werr) {
		return fmt.Errorf("Atoi(%q): error %v, strconv %v", s, gerr, werr)
	}
	if got != want {
		return fmt.Errorf("Atoi(%q) = %d, strconv %d", s, got, want)
	}
	return nil
}

func TestVerifReplay(t *testing.T) {
	t.Log("NO-ORACLE")
}

func TestVerifBounded(t *testing.T) {
	which := os.Getenv("VERIF_BOUNDED")
	tier := os.Getenv("VERIF_TIER")
	seed, _ := strconv.ParseInt(os.Getenv("VERIF_SEED"), 10, 64)
	if which != "parsefloat" {
		t.Skip("unknown bounded check " + which)
	}
	n, fails := 0, 0
	check := func(err error) {
		n++
		if err != nil {
			fails++
			if fails <= 12 {
				t.Errorf("REPLAY-FAIL %v", err)
			}
		}
	}
	var parts []string
	// 1. every short string over the numeric alphabet
	alpha := "0123456789.eE+-_xXpPinfNa"
	maxLen := 4
	if tier == "thorough" {
		maxLen = 5
	}
	var rec func(buf []byte)
	rec = func(buf []byte) {
		if len(buf) > 0 {
			check(verifCheckFloat(string(buf)))
			check(verifCheckInt(string(buf)))
		}
		if len(buf) == maxLen {
			return
		}
		for i := 0; i < len(alpha); i++ {
			rec(append(buf, alpha[i]))
		}
	}
	rec(make([]byte, 0, maxLen))
	parts = append(parts, fmt.Sprintf("all strings of length <= %d over %q", maxLen, alpha))
	// 2. short decimals over the full exponent range
	for m := 0; m < 1000; m++ {
		ms := strconv.Itoa(m)
		forms := []string{ms}
		if len(ms) > 1 {
			forms = append(forms, ms[:1]+"."+ms[1:])
		}
		for e := -330; e <= 310; e++ {
			if tier != "thorough" && m > 120 && e%7 != 0 {
				continue
			}
			for _, f := range forms {
				check(verifCheckFloat(f + "e" + strconv.Itoa(e)))
			}
		}
	}
	parts = append(parts, "1-3 digit mantissas x exponents -330..310 (quick: thinned above mantissa 120)")
	// 3. halfway cases between adjacent floats around powers of two, exact decimal text
	for e := -1074; e <= 1023; e += 13 {
		for _, m := range []uint64{1 << 52, 1<<52 + 1, 1<<53 - 1, 1<<52 + 0x123456789} {
			if e < -1022 {
				m = m >> 20
				if m == 0 {
					m = 1
				}
			}
			// midpoint (2m+1) * 2^(e-53)
			r := new(big.Rat).SetInt(new(big.Int).SetUint64(2*m + 1))
			two := new(big.Rat).SetInt64(2)
			k := e - 53
			for i := 0; i < k; i++ {
				r.Mul(r, two)
			}
			for i := 0; i > k; i-- {
				r.Quo(r, two)
			}
			prec := 0
			if k < 0 {
				prec = -k
			}
			s := r.FloatString(prec)
			check(verifCheckFloat(s))
			// just above and just below the midpoint
			if strings.Contains(s, ".") {
				check(verifCheckFloat(s + "1"))
				check(verifCheckFloat(s[:len(s)-1] + "4999"))
			}
		}
	}
	parts = append(parts, "exact halfway decimals (and neighbours) at exponents -1074..1023 step 13")
	// 4. long integer mantissas around 2^53, 2^63, 2^64
	for _, c := range []string{"9007199254740992", "9223372036854775807", "18446744073709551615"} {
		base, _ := new(big.Int).SetString(c, 10)
		for d := -40; d <= 40; d++ {
			v := new(big.Int).Add(base, big.NewInt(int64(d)))
			s := v.String()
			check(verifCheckFloat(s))
			check(verifCheckInt(s))
			check(verifCheckInt("-" + s))
			check(verifCheckFloat(s + "0"))
			check(verifCheckFloat(s + "00000000"))
			check(verifCheckFloat("000" + s))
		}
	}
	parts = append(parts, "integers within 40 of 2^53, 2^63-1, 2^64-1 (with suffix/prefix zeros)")
	// 5. hex floats: more significant bits than fit, sticky-bit patterns
	hexd := "0123456789abcdef"
	for _, lead := range []string{"1", "f", "123456789abcde"} {
		for pos := 12; pos <= 18; pos++ {
			for _, guard := range []byte("0178f") {
				for _, tail := range []string{"", "0", "1", "01", "8", "80", "81", "7f", "ff"} {
					frac := strings.Repeat("0", pos) + string(guard) + tail
					for _, p := range []string{"p0", "p-20", "p+1000", "p-1060", "p-1074"} {
						check(verifCheckFloat("0x" + lead + "." + frac + p))
					}
				}
			}
		}
	}
	rng := rand.New(rand.NewSource(seed + 1))
	nr := 20000
	if tier == "thorough" {
		nr = 2000000
	}
	for i := 0; i < nr; i++ {
		var sb strings.Builder
		switch rng.Intn(3) {
		case 0: // long decimal mantissa
			nd := 15 + rng.Intn(25)
			dot := rng.Intn(nd)
			for j := 0; j < nd; j++ {
				if j == dot {
					sb.WriteByte('.')
				}
				sb.WriteByte(byte('0' + rng.Intn(10)))
			}
			fmt.Fprintf(&sb, "e%d", rng.Intn(700)-350)
		case 1: // hex
			sb.WriteString("0x")
			nd := 1 + rng.Intn(20)
			dot := rng.Intn(nd + 1)
			for j := 0; j < nd; j++ {
				if j == dot {
					sb.WriteByte('.')
				}
				sb.WriteByte(hexd[rng.Intn(16)])
			}
			fmt.Fprintf(&sb, "p%d", rng.Intn(2300)-1150)
		default: // near-miss spellings
			words := []string{"inf", "Inf", "+Inf", "-inf", "infinity", "nan", "NaN", "infinit", "in", "1_0", "0x_1p0", "1e", "1e+", ".", "+.", "1__0", "0b11", "0o7"}
			sb.WriteString(words[rng.Intn(len(words))])
			if rng.Intn(2) == 0 {
				sb.WriteByte(alpha[rng.Intn(len(alpha))])
			}
		}
		check(verifCheckFloat(sb.String()))
	}
	parts = append(parts, fmt.Sprintf("hex floats with 12-18 leading fraction zeros x guard/sticky patterns; %d seeded random long decimal / hex / near-miss texts (seed %d)", nr, seed))
	fmt.Printf("BOUNDED-RESULT {\"cases\": %d, \"failures\": %d, \"bound\": %q, \"exhaustive\": false}\n", n, fails, strings.Join(parts, "; "))
}
