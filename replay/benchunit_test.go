// Bounded stand-ins for package benchunit (C04, C10).  Injected with
// `go test -overlay`; nothing is written to the repository.  The reference
// normaliser is written from the documented rule: every "ns" or "MB" token in
// the numerator becomes "sec" or "B" and the value is divided by 1e9 /
// multiplied by 1e6 per token, in token order.

package benchunit

import (
	"fmt"
	"math"
	"math/big"
	"os"
	"strconv"
	"strings"
	"testing"
	"unicode"
)

func verifRefTidy(unit string) (string, float64) {
	factor := 1.0
	var out strings.Builder
	denom := false
	i := 0
	for i < len(unit) {
		// separators
		r := rune(unit[i])
		if r < 0x80 && (r == '*' || r == '/' || r == '-' || unicode.IsSpace(r)) {
			if r == '*' {
				denom = false
			} else if r == '/' {
				denom = true
			}
			out.WriteByte(unit[i])
			i++
			continue
		}
		j := i
		for j < len(unit) {
			c := rune(unit[j])
			if c < 0x80 && (c == '*' || c == '/' || c == '-' || unicode.IsSpace(c)) {
				break
			}
			j++
		}
		tok := unit[i:j]
		switch {
		case !denom && tok == "ns":
			out.WriteString("sec")
			factor /= 1e9
		case !denom && tok == "MB":
			out.WriteString("B")
			factor *= 1e6
		default:
			out.WriteString(tok)
		}
		i = j
	}
	return out.String(), factor
}

func TestVerifReplay(t *testing.T) { t.Log("NO-ORACLE") }

func TestVerifBounded(t *testing.T) {
	which := os.Getenv("VERIF_BOUNDED")
	tier := os.Getenv("VERIF_TIER")
	switch which {
	case "tidy":
		maxLen := 5
		if tier == "thorough" {
			maxLen = 6
		}
		alpha := "nsMB/*- x"
		values := []float64{0, 1, -2.5, 1e300, math.Inf(1), math.Inf(-1), math.NaN(), 5e-324}
		n, fails := 0, 0
		bad := func(f string, args ...any) {
			fails++
			if fails <= 10 {
				t.Errorf("REPLAY-FAIL "+f, args...)
			}
		}
		var units []string
		var rec func(buf []byte)
		rec = func(buf []byte) {
			units = append(units, string(buf))
			if len(buf) == maxLen {
				return
			}
			for i := 0; i < len(alpha); i++ {
				rec(append(buf, alpha[i]))
			}
		}
		rec(make([]byte, 0, maxLen))
		units = append(units, "ns/op", "MB/s", "B/op", "allocs/op", "heap-MB/MB", "wait-ns/ns", "ns*MB/ns*ns", "MB MB", "nsec/op", "MBytes/s", "gc-ns/op")
		// two passes, so that cache hits of the second pass are checked too
		for pass := 0; pass < 2; pass++ {
			for _, u := range units {
				wantU, wantF := verifRefTidy(u)
				for _, v := range values {
					n++
					gotV, gotU := Tidy(v, u)
					if gotU != wantU {
						bad("Tidy(%v, %q) unit %q, want %q", v, u, gotU, wantU)
						break
					}
					wantV := v * wantF
					if math.Float64bits(gotV) != math.Float64bits(wantV) && !(math.IsNaN(gotV) && math.IsNaN(wantV)) {
						bad("Tidy(%v, %q) value %v, want %v", v, u, gotV, wantV)
						break
					}
					// normalising an already normalised measurement changes nothing
					v2, u2 := Tidy(gotV, gotU)
					if u2 != gotU || (math.Float64bits(v2) != math.Float64bits(gotV) && !math.IsNaN(gotV)) {
						bad("Tidy is not idempotent on (%v, %q): (%v, %q) -> (%v, %q)", v, u, gotV, gotU, v2, u2)
						break
					}
				}
			}
		}
		fmt.Printf("BOUNDED-RESULT {\"cases\": %d, \"failures\": %d, \"bound\": \"all units of length <= %d over {n s M B / * - space x} plus 11 named units, x 8 values incl. 0, +-Inf, NaN, two passes (cold and cached)\", \"exhaustive\": true}\n", n, fails, maxLen)
	case "scale":
		verifScale(t, tier)
	default:
		t.Skip("unknown bounded check " + which)
	}
}

var verifSI = map[string]float64{"T": 1e12, "G": 1e9, "M": 1e6, "k": 1e3, "": 1, "m": 1e-3, "µ": 1e-6, "n": 1e-9}
var verifIEC = map[string]float64{"Ti": 1 << 40, "Gi": 1 << 30, "Mi": 1 << 20, "Ki": 1 << 10, "": 1}

// verifCheckScaled: the printed mantissa times the prefix factor equals the
// value to within half a unit of the last printed digit; with a prefix in range
// the mantissa has four significant digits in [1,1000) / [1,1024).
func verifCheckScaled(val float64, cls Class) error {
	out := Scale(val, cls)
	i := 0
	for i < len(out) && (out[i] == '-' || out[i] == '.' || (out[i] >= '0' && out[i] <= '9')) {
		i++
	}
	mant, prefix := out[:i], out[i:]
	table := verifSI
	top := 1000.0
	if cls == Binary {
		table = verifIEC
		top = 1024
	}
	factor, ok := table[prefix]
	if !ok {
		return fmt.Errorf("Scale(%v, %v) = %q: unknown prefix %q", val, cls, out, prefix)
	}
	m, err := strconv.ParseFloat(mant, 64)
	if err != nil {
		return fmt.Errorf("Scale(%v, %v) = %q: bad mantissa", val, cls, out)
	}
	prec := 0
	if d := strings.IndexByte(mant, '.'); d >= 0 {
		prec = len(mant) - d - 1
	}
	// exact arithmetic: |m*factor - val| <= (1/2) 10^-prec factor  (+ 2 ulps of the quotient for the double rounding of val/factor)
	bm, _ := new(big.Float).SetPrec(200).SetString(mant)
	bf := new(big.Float).SetPrec(200).SetFloat64(factor)
	diff := new(big.Float).SetPrec(200).Mul(bm, bf)
	diff.Sub(diff, new(big.Float).SetPrec(200).SetFloat64(val))
	diff.Abs(diff)
	half := new(big.Float).SetPrec(200).SetFloat64(0.5 * math.Pow(10, -float64(prec)))
	half.Mul(half, bf)
	slack := new(big.Float).SetPrec(200).SetFloat64(math.Abs(val) * 4e-16)
	half.Add(half, slack)
	if diff.Cmp(half) > 0 {
		return fmt.Errorf("Scale(%v, %v) = %q is off by more than half a unit of the last digit", val, cls, out)
	}
	a := math.Abs(val)
	smallest, largest := math.Inf(1), 0.0
	for _, f := range table {
		smallest = math.Min(smallest, f)
		largest = math.Max(largest, f)
	}
	am := math.Abs(m)
	if a != 0 && a >= smallest*0.99995 && a < largest*top*0.99 {
		// a prefix in range exists: four significant digits, mantissa in [1, top)
		digits := len(strings.Replace(strings.TrimLeft(strings.TrimPrefix(mant, "-"), "0"), ".", "", 1))
		if am < 1 || am >= top || digits < 4 || (digits != 4 && am < 1000) {
			return fmt.Errorf("Scale(%v, %v) = %q: mantissa %v with %d significant digits, want 4 digits in [1,%v)", val, cls, out, am, digits, top)
		}
	} else if a != 0 && a >= smallest*1e-8 && a < smallest {
		sig := len(strings.TrimLeft(strings.Replace(strings.TrimPrefix(mant, "-"), ".", "", 1), "0"))
		if sig < 3 {
			return fmt.Errorf("Scale(%v, %v) = %q has only %d significant digits", val, cls, out, sig)
		}
	}
	return nil
}

func verifScale(t *testing.T, tier string) {
	n, fails := 0, 0
	bad := func(err error) {
		fails++
		if fails <= 12 {
			t.Errorf("REPLAY-FAIL %v", err)
		}
	}
	ulps := 40
	if tier == "thorough" {
		ulps = 400
	}
	around := func(x float64, cls Class) {
		v := x
		for i := 0; i < ulps; i++ {
			v = math.Nextafter(v, 0)
		}
		for i := 0; i < 2*ulps+1; i++ {
			n++
			if err := verifCheckScaled(v, cls); err != nil {
				bad(err)
				return
			}
			if err := verifCheckScaled(-v, cls); err != nil {
				bad(err)
				return
			}
			v = math.Nextafter(v, math.Inf(1))
		}
	}
	for _, f := range siFactors {
		for _, th := range []float64{f.t100, f.t10, f.t1, f.factor, f.factor * 999.95, f.factor * 9.9995} {
			around(th, Decimal)
		}
	}
	for _, f := range iecFactors {
		for _, th := range []float64{f.t100, f.t10, f.t1, f.factor, f.factor * 1023.95, f.factor * 999.95} {
			around(th, Binary)
		}
	}
	last := siFactors[len(siFactors)-1].factor
	for _, sf := range sigfigs {
		around(sf*last, Decimal)
		around(sf, Binary)
	}
	// a logarithmic sweep
	for e := -17.0; e < 15; e += 0.0137 {
		n++
		v := math.Pow(10, e)
		if err := verifCheckScaled(v, Decimal); err != nil {
			bad(err)
		}
		if v >= 1e-8 {
			if err := verifCheckScaled(v, Binary); err != nil {
				bad(err)
			}
		}
	}
	// named boundary cases
	for _, tc := range []struct {
		v    float64
		cls  Class
		want string
	}{{999.95, Decimal, "1.000k"}, {999.94, Decimal, "999.9"}, {0, Decimal, "0.000"}, {1023.95, Binary, "1.000Ki"}, {2048, Binary, "2.000Ki"}, {2048, Decimal, "2.048k"}, {1, Decimal, "1.000"}} {
		n++
		if got := Scale(tc.v, tc.cls); got != tc.want {
			bad(fmt.Errorf("Scale(%v, %v) = %q, want %q", tc.v, tc.cls, got, tc.want))
		}
	}
	// a shared scale is the one of the smallest non-zero magnitude
	sets := [][]float64{{1.5, -2500}, {-2500, 1.5}, {2500, -1.5}, {0, 3e6, 2e3}, {0, 0}, {-5e-7, 4, 1e9}, {1e9, -1e3, 0, 1e6}}
	for _, vals := range sets {
		n++
		min := 0.0
		for _, v := range vals {
			if a := math.Abs(v); a != 0 && (min == 0 || a < min) {
				min = a
			}
		}
		for _, cls := range []Class{Decimal, Binary} {
			if got, want := CommonScale(vals, cls), CommonScale([]float64{min}, cls); got != want {
				bad(fmt.Errorf("CommonScale(%v, %v) = %+v, the scale of the smallest non-zero magnitude %v is %+v", vals, cls, got, min, want))
			}
		}
	}
	// a unit is binary exactly when bytes appear in its numerator
	for u, want := range map[string]Class{"B": Binary, "MB/s": Binary, "bytes": Binary, "B/op": Binary, "sec/MB": Decimal, "op/bytes": Decimal, "ns/B": Decimal,
		"B / s": Binary, "bytes / op": Binary, "disk B/sec": Binary, "B ": Binary, " B": Binary, "sec/op": Decimal, "MB*sec": Binary, "sec*B/op": Binary, "op/sec*B": Binary,
		"op/B*MB": Binary, "heap-B": Binary, "Bytes": Decimal, "KB": Decimal, "": Decimal} {
		n++
		if got := ClassOf(u); got != want {
			bad(fmt.Errorf("ClassOf(%q) = %v, want %v", u, got, want))
		}
	}
	// the same rule on generated units: up to three tokens joined by every kind of
	// separator ('/', '*', '-', and white space of any kind, which separates tokens
	// without changing sides)
	{
		toks := []string{"B", "MB", "bytes", "sec", "x", "Bytes", "KB"}
		seps := []string{"/", "*", "-", " ", "\t", "\n", "\u00a0", "\u2009", " / ", "*/", "/ *"}
		side := func(sep string, denom bool) bool {
			for _, r := range sep {
				if r == '*' {
					denom = false
				} else if r == '/' {
					denom = true
				}
			}
			return denom
		}
		isByte := func(t string) bool { return t == "B" || t == "MB" || t == "bytes" }
		for _, t1 := range toks {
			for _, s1 := range seps {
				for _, t2 := range toks {
					for _, s2 := range append([]string{""}, seps...) {
						for _, t3 := range toks {
							if s2 == "" && t3 != toks[0] {
								continue
							}
							u := t1 + s1 + t2
							want := Decimal
							d := false
							if isByte(t1) {
								want = Binary
							}
							d = side(s1, d)
							if isByte(t2) && !d {
								want = Binary
							}
							if s2 != "" {
								u += s2 + t3
								d = side(s2, d)
								if isByte(t3) && !d {
									want = Binary
								}
							}
							n++
							if got := ClassOf(u); got != want {
								bad(fmt.Errorf("ClassOf(%q) = %v, want %v", u, got, want))
							}
						}
					}
				}
			}
		}
	}
	// the no-op scale prints the shortest decimal that reads back to the same float
	for _, v := range []float64{0, 1, 0.1, 1.0 / 3, 1e21, 1e-7, 123456789.123, 5e-324, math.MaxFloat64, -2.5} {
		n++
		out := NoOpScaler.Format(v)
		back, err := strconv.ParseFloat(out, 64)
		if err != nil || back != v || out != strconv.FormatFloat(v, 'f', -1, 64) {
			bad(fmt.Errorf("NoOpScaler.Format(%v) = %q", v, out))
		}
	}
	fmt.Printf("BOUNDED-RESULT {\"cases\": %d, \"failures\": %d, \"bound\": \"Scale at +-%d ulps around every threshold, factor and rounding boundary of both classes and every sub-prefix threshold (both signs), a log sweep 1e-17..1e15, named boundary cases, shared scales of mixed-sign sets, 21 named and about 47 000 generated unit class cases (every separator incl. tab, newline, no-break and thin space), the no-op scale on 10 values; exact decimal arithmetic for the half-unit bound\", \"exhaustive\": false}\n", n, fails, ulps)
}
