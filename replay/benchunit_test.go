// Bounded stand-ins for package benchunit (C04, C10).  Injected with
// `go test -overlay`; nothing is written to the repository.  The reference
// normaliser is written from the documented rule: every "ns" or "MB" token in
// the numerator becomes "sec" or "B" and the value is divided by 1e9 /
// multiplied by 1e6 per token, in token order.

package benchunit

import (
	"fmt"
	"math"
	"os"
	"strings"
	"testing"
	"unicode"
)

func verifRefTidy(unit string) (string, float64) {
	factor := 1.0
	var out strings.Builder
	denom := false
	i := 0
	for i < len(unit) {
		// separators
		r := rune(unit[i])
		if r < 0x80 && (r == '*' || r == '/' || r == '-' || unicode.IsSpace(r)) {
			if r == '*' {
				denom = false
			} else if r == '/' {
				denom = true
			}
			out.WriteByte(unit[i])
			i++
			continue
		}
		j := i
		for j < len(unit) {
			c := rune(unit[j])
			if c < 0x80 && (c == '*' || c == '/' || c == '-' || unicode.IsSpace(c)) {
				break
			}
			j++
		}
		tok := unit[i:j]
		switch {
		case !denom && tok == "ns":
			out.WriteString("sec")
			factor /= 1e9
		case !denom && tok == "MB":
			out.WriteString("B")
			factor *= 1e6
		default:
			out.WriteString(tok)
		}
		i = j
	}
	return out.String(), factor
}

func TestVerifReplay(t *testing.T) { t.Log("NO-ORACLE") }

func TestVerifBounded(t *testing.T) {
	which := os.Getenv("VERIF_BOUNDED")
	tier := os.Getenv("VERIF_TIER")
	switch which {
	case "tidy":
		maxLen := 5
		if tier == "thorough" {
			maxLen = 6
		}
		alpha := "nsMB/*- x"
		values := []float64{0, 1, -2.5, 1e300, math.Inf(1), math.Inf(-1), math.NaN(), 5e-324}
		n, fails := 0, 0
		bad := func(f string, args ...any) {
			fails++
			if fails <= 10 {
				t.Errorf("REPLAY-FAIL "+f, args...)
			}
		}
		var units []string
		var rec func(buf []byte)
		rec = func(buf []byte) {
			units = append(units, string(buf))
			if len(buf) == maxLen {
				return
			}
			for i := 0; i < len(alpha); i++ {
				rec(append(buf, alpha[i]))
			}
		}
		rec(make([]byte, 0, maxLen))
		units = append(units, "ns/op", "MB/s", "B/op", "allocs/op", "heap-MB/MB", "wait-ns/ns", "ns*MB/ns*ns", "MB MB", "nsec/op", "MBytes/s", "gc-ns/op")
		// two passes, so that cache hits of the second pass are checked too
		for pass := 0; pass < 2; pass++ {
			for _, u := range units {
				wantU, wantF := verifRefTidy(u)
				for _, v := range values {
					n++
					gotV, gotU := Tidy(v, u)
					if gotU != wantU {
						bad("Tidy(%v, %q) unit %q, want %q", v, u, gotU, wantU)
						break
					}
					wantV := v * wantF
					if math.Float64bits(gotV) != math.Float64bits(wantV) && !(math.IsNaN(gotV) && math.IsNaN(wantV)) {
						bad("Tidy(%v, %q) value %v, want %v", v, u, gotV, wantV)
						break
					}
					// normalising an already normalised measurement changes nothing
					v2, u2 := Tidy(gotV, gotU)
					if u2 != gotU || (math.Float64bits(v2) != math.Float64bits(gotV) && !math.IsNaN(gotV)) {
						bad("Tidy is not idempotent on (%v, %q): (%v, %q) -> (%v, %q)", v, u, gotV, gotU, v2, u2)
						break
					}
				}
			}
		}
		fmt.Printf("BOUNDED-RESULT {\"cases\": %d, \"failures\": %d, \"bound\": \"all units of length <= %d over {n s M B / * - space x} plus 11 named units, x 8 values incl. 0, +-Inf, NaN, two passes (cold and cached)\", \"exhaustive\": true}\n", n, fails, maxLen)
	default:
		t.Skip("unknown bounded check " + which)
	}
}
