// Bounded stand-in for the legacy benchstat library (C17).  Injected with
// `go test -overlay`; nothing is written to the repository.

package benchstat

import (
	"fmt"
	"math"
	"os"
	"sort"
	"strings"
	"testing"

	"golang.org/x/perf/internal/stats"
)

func TestVerifReplay(t *testing.T) { t.Log("NO-ORACLE") }

// verifRetained: the values within 1.5 interquartile ranges of the quartiles (R8), in input order.
func verifRetained(vals []float64) []float64 {
	s := append([]float64(nil), vals...)
	sort.Float64s(s)
	q := func(p float64) float64 {
		n := float64(len(s))
		if len(s) == 1 {
			return s[0]
		}
		h := (n+1.0/3)*p + 1.0/3
		if h <= 1 {
			return s[0]
		}
		if h >= n {
			return s[len(s)-1]
		}
		k := math.Floor(h)
		return s[int(k)-1] + (h-k)*(s[int(k)]-s[int(k)-1])
	}
	q1, q3 := q(0.25), q(0.75)
	lo, hi := q1-1.5*(q3-q1), q3+1.5*(q3-q1)
	var out []float64
	for _, v := range vals {
		if lo <= v && v <= hi {
			out = append(out, v)
		}
	}
	return out
}

func verifInput(name string, vals []float64, unit string) string {
	var sb strings.Builder
	for _, v := range vals {
		fmt.Fprintf(&sb, "Benchmark%s 1 %v %s\n", name, v, unit)
	}
	return sb.String()
}

func TestVerifBounded(t *testing.T) {
	if os.Getenv("VERIF_BOUNDED") != "legacy" {
		t.Skip("unknown bounded check")
	}
	n, fails := 0, 0
	bad := func(f string, args ...any) {
		fails++
		if fails <= 12 {
			t.Errorf("REPLAY-FAIL "+f, args...)
		}
	}
	samples := [][]float64{{0.1, 0.1, 0.1}, {0.7, 0.7, 0.7}, {2.3, 2.3, 2.3, 2.3, 2.3, 2.3, 2.3}, {100, 101, 99, 100, 102, 98, 100, 1000}, {1, 2, 3, 4, 5}, {5}, {1e-9, 2e-9, 1.5e-9},
		{10, 11, 9, 10, 12, 8, 10, -50, 10, 11}, {3, 3, 3, 3, 100}, {1, 1, 2, 2, 50, 2, 1}}
	// 1. retained values, min <= mean <= max
	for i, vals := range samples {
		n++
		c := new(Collection)
		c.AddConfig("c", []byte(verifInput("X", vals, "ns/op")))
		tabs := c.Tables()
		if len(tabs) != 1 || len(tabs[0].Rows) != 1 {
			bad("sample %d: unexpected table shape", i)
			continue
		}
		m := tabs[0].Rows[0].Metrics[0]
		want := verifRetained(vals)
		if fmt.Sprint(m.RValues) != fmt.Sprint(want) {
			bad("values %v: retained %v, want %v (in input order)", vals, m.RValues, want)
			continue
		}
		mn, mx := want[0], want[0]
		for _, v := range want {
			mn, mx = math.Min(mn, v), math.Max(mx, v)
		}
		if m.Min != mn || m.Max != mx || !(m.Min <= m.Mean && m.Mean <= m.Max) {
			bad("values %v: min %v mean %v max %v (retained %v)", vals, m.Min, m.Mean, m.Max, want)
		}
	}
	// 2. the delta gate for every pair of samples and each test
	for _, tc := range []struct {
		name string
		test DeltaTest
	}{{"utest", UTest}, {"ttest", TTest}, {"none", NoDeltaTest}} {
		for i, a := range samples {
			for j, b := range samples {
				// only the plain MB/s metric is better when higher; a prefixed one such as
				// disk-MB/s is its own metric and, like every other, better when lower
				for _, unit := range []string{"ns/op", "MB/s", "disk-MB/s", "widgets/op"} {
					n++
					c := &Collection{DeltaTest: tc.test}
					c.AddConfig("old", []byte(verifInput("X", a, unit)))
					c.AddConfig("new", []byte(verifInput("X", b, unit)))
					tabs := c.Tables()
					if len(tabs) != 1 || len(tabs[0].Rows) != 1 {
						bad("%s %d/%d: table shape", tc.name, i, j)
						continue
					}
					row := tabs[0].Rows[0]
					ra, rb := verifRetained(a), verifRetained(b)
					var p float64 = -1
					var terr error
					switch tc.name {
					case "utest":
						if r, err := stats.MannWhitneyUTest(ra, rb, stats.LocationDiffers); err != nil {
							terr = err
						} else {
							p = r.P
						}
					case "ttest":
						if r, err := stats.TwoSampleWelchTTest(stats.Sample{Xs: ra}, stats.Sample{Xs: rb}, stats.LocationDiffers); err != nil {
							terr = err
						} else {
							p = r.P
						}
					}
					oldMean, newMean := stats.Mean(ra), stats.Mean(rb)
					wantDelta := "~"
					wantChange := 0
					if terr == nil && p < 0.05 {
						if newMean == oldMean {
							wantDelta = "0.00%"
						} else {
							pct := (newMean/oldMean - 1) * 100
							wantDelta = fmt.Sprintf("%+.2f%%", pct)
							if (pct < 0) == (unit != "MB/s") {
								wantChange = 1
							} else {
								wantChange = -1
							}
						}
					}
					if row.Delta != wantDelta || row.Change != wantChange {
						bad("%s old=%v new=%v %s: delta %q change %d, want %q %d (p=%v err=%v)", tc.name, a, b, unit, row.Delta, row.Change, wantDelta, wantChange, p, terr)
						continue
					}
					if terr == nil && tc.name != "none" {
						wantNote := fmt.Sprintf("(p=%0.3f n=%d+%d)", p, len(ra), len(rb))
						if row.Note != wantNote {
							bad("%s old=%v new=%v: note %q, want %q", tc.name, a, b, row.Note, wantNote)
						}
					} else if terr != nil && row.Note == "" {
						bad("%s old=%v new=%v: test failed with %v but the row carries no reason", tc.name, a, b, terr)
					}
				}
			}
		}
	}
	// 2b. the gate is strict: a p-value equal to the threshold is not significant, one just below it is
	for i, a := range samples {
		for j, b := range samples {
			ra, rb := verifRetained(a), verifRetained(b)
			r, err := stats.MannWhitneyUTest(ra, rb, stats.LocationDiffers)
			if err != nil || !(r.P > 0 && r.P < 1) || stats.Mean(ra) == stats.Mean(rb) {
				continue
			}
			for _, alpha := range []float64{r.P, math.Nextafter(r.P, 2)} {
				n++
				c := &Collection{DeltaTest: UTest, Alpha: alpha}
				c.AddConfig("old", []byte(verifInput("X", a, "ns/op")))
				c.AddConfig("new", []byte(verifInput("X", b, "ns/op")))
				row := c.Tables()[0].Rows[0]
				if shown, want := row.Delta != "~", r.P < alpha; shown != want {
					bad("samples %d/%d: p=%v alpha=%v: delta %q shown=%v, want shown=%v (a change is significant only if p < alpha)", i, j, r.P, alpha, row.Delta, shown, want)
				}
			}
		}
	}
	// 3. rows: first-appearance order, stable sorting with ties, geomean of non-zero means
	var in1, in2 strings.Builder
	names := []string{}
	for i := 0; i < 20; i++ {
		name := fmt.Sprintf("B%02d", (i*7)%20)
		names = append(names, name)
		base := 100.0
		if i%4 == 0 {
			base = 200 // these differ significantly, the rest tie at "~"
		}
		for k := 0; k < 6; k++ {
			fmt.Fprintf(&in1, "Benchmark%s 1 %v ns/op\n", name, 100+float64(k%3))
			fmt.Fprintf(&in2, "Benchmark%s 1 %v ns/op\n", name, base+float64((k+1)%3))
		}
	}
	n++
	c := &Collection{}
	c.AddConfig("old", []byte(in1.String()))
	c.AddConfig("new", []byte(in2.String()))
	rows := c.Tables()[0].Rows
	for i, r := range rows {
		if r.Benchmark != names[i] {
			bad("row %d is %s, want first-appearance order %s", i, r.Benchmark, names[i])
			break
		}
	}
	for _, order := range []struct {
		name string
		o    Order
	}{{"ByDelta", ByDelta}, {"Reverse(ByDelta)", Reverse(ByDelta)}, {"ByName", ByName}} {
		n++
		c := &Collection{Order: order.o}
		c.AddConfig("old", []byte(in1.String()))
		c.AddConfig("new", []byte(in2.String()))
		tab := c.Tables()[0]
		pos := map[string]int{}
		for i, nm := range names {
			pos[nm] = i
		}
		for i := 0; i+1 < len(tab.Rows); i++ {
			a, b := tab.Rows[i], tab.Rows[i+1]
			if order.o(tab, i+1, i) {
				bad("%s: rows %d,%d out of order", order.name, i, i+1)
			}
			if !order.o(tab, i, i+1) && !order.o(tab, i+1, i) && pos[a.Benchmark] > pos[b.Benchmark] {
				bad("%s: tied rows %s and %s lost their original order (unstable sort)", order.name, a.Benchmark, b.Benchmark)
				break
			}
		}
	}
	// a configuration without any usable result is still a configuration: it keeps its
	// column (so three configurations are not silently compared as two)
	for _, barren := range []string{"", "PASS\nok  \tpkg\t1.0s\n", "BenchmarkX 0 1 ns/op\nBenchmarkX\n"} {
		n++
		cb := &Collection{}
		cb.AddConfig("old", []byte("BenchmarkX 1 10 ns/op\nBenchmarkX 1 11 ns/op\n"))
		cb.AddConfig("mid", []byte(barren))
		cb.AddConfig("new", []byte("BenchmarkX 1 20 ns/op\nBenchmarkX 1 21 ns/op\n"))
		tb := cb.Tables()
		if len(tb) != 1 || fmt.Sprint(tb[0].Configs) != "[old mid new]" {
			bad("configurations old, mid (no results: %q), new: tables %d, configurations %v; want one table with [old mid new]", barren, len(tb), func() []string {
				if len(tb) > 0 {
					return tb[0].Configs
				}
				return nil
			}())
			continue
		}
		for _, r := range tb[0].Rows {
			if len(r.Metrics) != 3 || r.Metrics[0] == nil || r.Metrics[2] == nil || r.Metrics[0].Mean != 10.5 || r.Metrics[2].Mean != 20.5 || r.Delta != "" && r.Delta != "~" && tb[0].OldNewDelta {
				bad("configurations old, mid (no results), new: row %+v of table %+v", r, tb[0])
			}
		}
		if tb[0].OldNewDelta {
			bad("three configurations (the middle one without results) are reported as an old/new comparison")
		}
	}
	n++
	cg := &Collection{AddGeoMean: true}
	cg.AddConfig("c", []byte("BenchmarkA 1 2 ns/op\nBenchmarkB 1 8 ns/op\nBenchmarkC 1 0 ns/op\n"))
	gr := cg.Tables()[0].Rows
	if last := gr[len(gr)-1]; last.Benchmark != "[Geo mean]" || math.Abs(last.Metrics[0].Mean-4) > 1e-12 {
		bad("geomean row %+v, want the geometric mean 4 of the non-zero means", last)
	}
	fmt.Printf("BOUNDED-RESULT {\"cases\": %d, \"failures\": %d, \"bound\": \"10 samples (constant non-representable values, outliers on either side, singletons): retained values and min<=mean<=max; every ordered pair x 3 delta tests x 4 units (plain and prefixed MB/s, two lower-is-better units): delta gate (incl. p exactly at the threshold), percentage, direction, note; 20-row table: first-appearance order, stability of 3 orders, geomean row; a configuration without results keeps its column\", \"exhaustive\": false}\n", n, fails)
}
