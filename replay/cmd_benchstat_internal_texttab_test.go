// Bounded-check driver for cmd/benchstat/internal/texttab (injected with
// `go test -overlay`; nothing is written to the repository).  Random tables are
// laid out by the real Table.Format and the output is measured: the oracle is
// the layout claim itself (positions in the rendered text), not the algorithm.

package texttab

import (
	"bytes"
	"fmt"
	"os"
	"strconv"
	"strings"
	"testing"
	"unicode/utf8"
)

func TestVerifReplay(t *testing.T) { t.Log("NO-ORACLE") }

type verifCell struct {
	row, col, span int
	value          string
	align          int // 0 left, 1 centre, 2 right
	margin         string
}

func TestVerifBounded(t *testing.T) {
	if os.Getenv("VERIF_BOUNDED") != "layout" {
		t.Skip("unknown bounded check")
	}
	tier := os.Getenv("VERIF_TIER")
	n, fails := 0, 0
	bad := func(f string, args ...any) {
		fails++
		if fails <= 12 {
			t.Errorf("REPLAY-FAIL "+f, args...)
		}
	}
	seed := uint64(3)
	if s := os.Getenv("VERIF_SEED"); s != "" {
		if v, err := strconv.ParseUint(s, 10, 64); err == nil {
			seed = v
		}
	}
	rnd := func(k int) int {
		seed = seed*6364136223846793005 + 1442695040888963407
		return int((seed >> 33) % uint64(k))
	}
	tables := 30000
	if tier == "thorough" {
		tables = 600000
	}
	// cell texts: unique per cell (so that they can be located in the output),
	// of varying width, some with multi-byte characters
	fill := []string{"", "x", "xx", "größe", "日本語", "wide-wide-wide", "ééééééé", "a", "long long label with blanks"}
	for ti := 0; ti < tables; ti++ {
		ncols := 1 + rnd(6)
		nrows := 2 + rnd(4)
		var tab Table
		var cells []verifCell
		shrink := make([]bool, ncols)
		for c := range shrink {
			if rnd(5) == 0 {
				shrink[c] = true
				tab.SetShrink(c, true)
			}
		}
		id := 0
		// row 0 is a ruler: one left-aligned single cell per column, so that
		// every column's starting offset can be read off the output
		tab.Row()
		for c := 0; c < ncols; c++ {
			v := fmt.Sprintf("<%d>", id)
			id++
			tab.Cell(v)
			m := " "
			if c == 0 {
				m = ""
			}
			cells = append(cells, verifCell{0, c, 1, v, 0, m})
		}
		for r := 1; r < nrows; r++ {
			tab.Row()
			c := 0
			for c < ncols {
				if rnd(6) == 0 { // skip a column
					c++
					continue
				}
				span := 1
				if rnd(3) == 0 {
					span = 1 + rnd(ncols-c)
				}
				v := fmt.Sprintf("<%d%s>", id, fill[rnd(len(fill))])
				id++
				al := rnd(3)
				tab.Col(c)
				var opts []CellOption
				switch al {
				case 1:
					opts = append(opts, Center)
				case 2:
					opts = append(opts, Right)
				}
				m := " "
				if c == 0 {
					m = ""
				}
				if rnd(8) == 0 {
					m = " │"
					opts = append(opts, LeftMargin(m))
				}
				tab.Span(span, v, opts...)
				cells = append(cells, verifCell{r, c, span, v, al, m})
				c += span
			}
		}
		var buf bytes.Buffer
		if err := tab.Format(&buf); err != nil {
			bad("table %d: Format: %v", ti, err)
			continue
		}
		out := buf.String()
		lines := strings.Split(strings.TrimSuffix(out, "\n"), "\n")
		// rows after the last cell are not printed
		nrows = 0
		for _, c := range cells {
			if c.row+1 > nrows {
				nrows = c.row + 1
			}
		}
		n++
		if len(lines) != nrows {
			bad("table %d: %d lines for %d rows\n%s", ti, len(lines), nrows, out)
			continue
		}
		// rune offsets of every cell's value
		type pos struct{ start, end int }
		where := map[int]pos{}
		okAll := true
		for ci, c := range cells {
			line := lines[c.row]
			bi := strings.Index(line, c.value)
			if bi < 0 {
				bad("table %d: cell %q (row %d col %d span %d) is missing or truncated in line %q\n%s", ti, c.value, c.row, c.col, c.span, line, out)
				okAll = false
				continue
			}
			st := utf8.RuneCountInString(line[:bi])
			where[ci] = pos{st, st + utf8.RuneCountInString(c.value)}
		}
		if !okAll {
			continue
		}
		for _, line := range lines {
			n++
			if strings.HasSuffix(line, " ") {
				bad("table %d: line %q ends in blanks\n%s", ti, line, out)
			}
		}
		// widest left margin of every column: each cell's margin is printed right-aligned in it
		lmargin := make([]int, ncols)
		for _, c := range cells {
			if w := utf8.RuneCountInString(c.margin); w > lmargin[c.col] {
				lmargin[c.col] = w
			}
		}
		// column start offsets read off the ruler row (value start minus the column's margin width)
		colStart := make([]int, ncols+1)
		for ci, c := range cells {
			if c.row == 0 {
				colStart[c.col] = where[ci].start - lmargin[c.col]
			}
		}
		width := 0
		for _, l := range lines {
			if w := utf8.RuneCountInString(l); w > width {
				width = w
			}
		}
		colStart[ncols] = width
		rightEnd := map[int]int{}
		for ci, c := range cells {
			n++
			p := where[ci]
			lo := colStart[c.col] + lmargin[c.col]
			hi := colStart[c.col+c.span]
			if c.col+c.span == ncols {
				hi = 1 << 30 // the last column may be as wide as its widest cell; checked through alignment below
			}
			// the cell's text lies inside the columns it spans
			if p.start < lo || p.end > hi {
				bad("table %d: cell %q (row %d col %d span %d) occupies [%d,%d) but its columns are [%d,%d)\n%s", ti, c.value, c.row, c.col, c.span, p.start, p.end, lo, hi, out)
				continue
			}
			switch c.align {
			case 0:
				if p.start != lo {
					bad("table %d: left-aligned cell %q starts at %d, its column starts at %d\n%s", ti, c.value, p.start, lo, out)
				}
			case 2:
				if c.span == 1 {
					if e, ok := rightEnd[c.col]; ok && e != p.end {
						bad("table %d: right-aligned cells of column %d end at %d and %d\n%s", ti, c.col, e, p.end, out)
					}
					rightEnd[c.col] = p.end
				}
			case 1:
				// centred: the free space is split evenly (left gets the smaller half)
				if c.col+c.span < ncols {
					left, right := p.start-lo, hi-p.end
					if left > right || right-left > 1 {
						bad("table %d: centred cell %q has %d blanks on the left and %d on the right of its span [%d,%d)\n%s", ti, c.value, left, right, lo, hi, out)
					}
				}
			}
		}
		// no overlap: cells of one line in column order do not run into each other
		for r := 0; r < nrows; r++ {
			last := -1
			for ci, c := range cells {
				if c.row != r {
					continue
				}
				n++
				if where[ci].start < last {
					bad("table %d: in line %d cell %q starts at %d before the previous cell ends at %d\n%s", ti, r, c.value, where[ci].start, last, out)
				}
				last = where[ci].end
			}
		}
	}
	fmt.Printf("BOUNDED-RESULT {\"cases\": %d, \"failures\": %d, \"bound\": \"%d random tables (1-6 columns, 2-5 rows, spans of 1..n columns, shrink columns, left/centre/right cells, custom margins, multi-byte text)\", \"exhaustive\": false}\n", n, fails, tables)
}
