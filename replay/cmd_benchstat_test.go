// Bounded-check driver for cmd/benchstat (injected with `go test -overlay`;
// nothing is written to the repository).  It drives the real benchstat()
// entry point on generated input files and compares the CSV output with an
// independent recomputation of every cell from the generated measurements.

package main

import (
	"bytes"
	"encoding/csv"
	"fmt"
	"math"
	"os"
	"path/filepath"
	"sort"
	"strconv"
	"strings"
	"testing"
	"unicode/utf8"
)

func TestVerifReplay(t *testing.T) { t.Log("NO-ORACLE") }

func TestVerifBounded(t *testing.T) {
	switch os.Getenv("VERIF_BOUNDED") {
	case "pipeline":
		verifPipeline(t, os.Getenv("VERIF_TIER"))
	case "textcsv":
		verifTextCSV(t, os.Getenv("VERIF_TIER"))
	default:
		t.Skip("unknown bounded check")
	}
}

// One generated measurement with everything the projections can look at.
type verifMeas struct {
	file  string            // label of the input file
	cfg   map[string]string // file configuration in force
	name  string            // full benchmark name (without "Benchmark")
	unit  string            // unit as benchstat shows it (normalised)
	value float64           // value in that unit
}

type verifSetting struct {
	args []string
	// reference projections: values of the table / row / column keys and the
	// residue of a measurement, as ordered (field, value) lists; empty values dropped
	table, row, col, residue func(m *verifMeas) [][2]string
	keep                     func(m *verifMeas) bool
}

func verifNameParts(name string) (base string, size string, gomax string) {
	rest := name
	if i := strings.LastIndexByte(rest, '-'); i >= 0 {
		if _, err := strconv.Atoi(rest[i+1:]); err == nil {
			gomax = rest[i+1:]
			rest = rest[:i]
		}
	}
	base = rest
	if i := strings.Index(rest, "/size="); i >= 0 {
		base = rest[:i]
		size = rest[i+len("/size="):]
	}
	return
}

func verifCfgFields(m *verifMeas, except ...string) [][2]string {
	var out [][2]string
	var keys []string
	for k := range m.cfg {
		keys = append(keys, k)
	}
	sort.Strings(keys)
outer:
	for _, k := range keys {
		for _, e := range except {
			if e == k {
				continue outer
			}
		}
		if m.cfg[k] != "" {
			out = append(out, [2]string{k, m.cfg[k]})
		}
	}
	return out
}

func verifOne(k, v string) [][2]string {
	if v == "" {
		return nil
	}
	return [][2]string{{k, v}}
}

func verifSettings() []verifSetting {
	all := func(m *verifMeas) bool { return true }
	fullname := func(m *verifMeas) [][2]string { return verifOne(".fullname", m.name) }
	file := func(m *verifMeas) [][2]string { return verifOne(".file", m.file) }
	return []verifSetting{
		{ // defaults: table by file configuration, row by full name, column by file
			args:    nil,
			table:   func(m *verifMeas) [][2]string { return verifCfgFields(m) },
			row:     fullname,
			col:     file,
			residue: func(m *verifMeas) [][2]string { return nil },
			keep:    all,
		},
		{ // rows by base name, columns by /size: files and gomaxprocs are merged
			args:  []string{"-row", ".name", "-col", "/size"},
			table: func(m *verifMeas) [][2]string { return verifCfgFields(m) },
			row: func(m *verifMeas) [][2]string {
				b, _, _ := verifNameParts(m.name)
				return verifOne(".name", b)
			},
			col: func(m *verifMeas) [][2]string {
				_, s, _ := verifNameParts(m.name)
				return verifOne("/size", s)
			},
			residue: func(m *verifMeas) [][2]string {
				_, _, g := verifNameParts(m.name)
				r := "*"
				if g != "" {
					r += "-" + g
				}
				return verifOne(".fullname", r)
			},
			keep: all,
		},
		{ // note ignored: it neither splits tables nor warns
			args:    []string{"-ignore", "note"},
			table:   func(m *verifMeas) [][2]string { return verifCfgFields(m, "note") },
			row:     fullname,
			col:     file,
			residue: func(m *verifMeas) [][2]string { return nil },
			keep:    all,
		},
		{ // tables by goos only: note becomes residue and must be warned about
			args:    []string{"-table", "goos"},
			table:   func(m *verifMeas) [][2]string { return verifOne("goos", m.cfg["goos"]) },
			row:     fullname,
			col:     file,
			residue: func(m *verifMeas) [][2]string { return verifCfgFields(m, "goos") },
			keep:    all,
		},
		{ // columns by goos; one unit filtered
			args:    []string{"-col", "goos", "-filter", ".unit:widgets"},
			table:   func(m *verifMeas) [][2]string { return verifCfgFields(m, "goos") },
			row:     fullname,
			col:     func(m *verifMeas) [][2]string { return verifOne("goos", m.cfg["goos"]) },
			residue: func(m *verifMeas) [][2]string { return nil },
			keep:    func(m *verifMeas) bool { return m.unit == "widgets" },
		},
		{ // a whole group ignored: rows by base name, the rest of the name ignored — no warning may mention .fullname
			args:  []string{"-row", ".name", "-ignore", ".fullname"},
			table: func(m *verifMeas) [][2]string { return verifCfgFields(m) },
			row: func(m *verifMeas) [][2]string {
				b, _, _ := verifNameParts(m.name)
				return verifOne(".name", b)
			},
			col:     file,
			residue: func(m *verifMeas) [][2]string { return nil },
			keep:    all,
		},
		{ // file configuration ignored as a group: one table per unit, no warning about configuration
			args:    []string{"-table", "", "-ignore", ".config"},
			table:   func(m *verifMeas) [][2]string { return nil },
			row:     fullname,
			col:     file,
			residue: func(m *verifMeas) [][2]string { return nil },
			keep:    all,
		},
		{ // filter on a name key, rows by name and size
			args:  []string{"-filter", "/size:1", "-row", ".name,/size", "-col", ".file,goos"},
			table: func(m *verifMeas) [][2]string { return verifCfgFields(m, "goos") },
			row: func(m *verifMeas) [][2]string {
				b, s, _ := verifNameParts(m.name)
				return append(verifOne(".name", b), verifOne("/size", s)...)
			},
			col: func(m *verifMeas) [][2]string {
				return append(verifOne(".file", m.file), verifOne("goos", m.cfg["goos"])...)
			},
			residue: func(m *verifMeas) [][2]string {
				_, _, g := verifNameParts(m.name)
				r := "*"
				if g != "" {
					r += "-" + g
				}
				return verifOne(".fullname", r)
			},
			keep: func(m *verifMeas) bool { _, s, _ := verifNameParts(m.name); return s == "1" },
		},
	}
}

func verifKeyString(kv [][2]string) string {
	var s []string
	for _, p := range kv {
		s = append(s, p[0]+":"+p[1])
	}
	return strings.Join(s, " ")
}

func verifValues(kv [][2]string) string {
	var s []string
	for _, p := range kv {
		s = append(s, p[1])
	}
	return strings.Join(s, " ")
}

func verifMedian(v []float64) float64 {
	s := append([]float64(nil), v...)
	sort.Float64s(s)
	n := len(s)
	if n%2 == 1 {
		return s[n/2]
	}
	return (s[n/2-1] + s[n/2]) / 2
}

// exact two-sided rank-sum p-value for untied samples
func verifExactP(a, b []float64) float64 {
	pool := append(append([]float64(nil), a...), b...)
	n1 := len(a)
	uOf := func(in []bool) int {
		u := 0
		for i := range pool {
			if !in[i] {
				continue
			}
			for j := range pool {
				if !in[j] && pool[i] > pool[j] {
					u++
				}
			}
		}
		return u
	}
	in := make([]bool, len(pool))
	for i := 0; i < n1; i++ {
		in[i] = true
	}
	obs := uOf(in)
	total, le, ge := 0, 0, 0
	sel := make([]bool, len(pool))
	var rec func(start, left int)
	rec = func(start, left int) {
		if left == 0 {
			total++
			u := uOf(sel)
			if u <= obs {
				le++
			}
			if u >= obs {
				ge++
			}
			return
		}
		for i := start; i+left <= len(pool); i++ {
			sel[i] = true
			rec(i+1, left-1)
			sel[i] = false
		}
	}
	rec(0, n1)
	return math.Min(1, 2*math.Min(float64(le), float64(ge))/float64(total))
}

type verifCSVCell struct {
	center, ci, delta, cmp string
	hasCmp                 bool
}

type verifCSVTable struct {
	hdr     map[string]string
	unit    string
	cols    []string // column label: values of the column fields joined by space
	rows    map[string]map[int]*verifCSVCell
	geomean map[int][2]string // column -> (summary, ratio)
}

func verifParseCSV(out string, nColFields int) ([]*verifCSVTable, error) {
	r := csv.NewReader(strings.NewReader(out))
	r.FieldsPerRecord = -1
	recs, err := r.ReadAll()
	if err != nil {
		return nil, err
	}
	startCol := func(exp int) int {
		if exp == 0 {
			return 1
		}
		return 3 + (exp-1)*4
	}
	expOf := func(col int) int {
		if col == 1 {
			return 0
		}
		if col >= 3 && (col-3)%4 == 0 {
			return (col-3)/4 + 1
		}
		return -1
	}
	var tables []*verifCSVTable
	hdr := map[string]string{}
	i := 0
	for i < len(recs) {
		rec := recs[i]
		if len(rec) == 1 && strings.Contains(rec[0], ": ") || len(rec) == 1 && strings.HasSuffix(rec[0], ":") {
			kv := strings.SplitN(rec[0], ":", 2)
			hdr[kv[0]] = strings.TrimSpace(kv[1])
			i++
			continue
		}
		// a table: nColFields column-header rows, then the unit row
		t := &verifCSVTable{hdr: map[string]string{}, rows: map[string]map[int]*verifCSVCell{}, geomean: map[int][2]string{}}
		for k, v := range hdr {
			t.hdr[k] = v
		}
		if i+nColFields >= len(recs) {
			return nil, fmt.Errorf("truncated table at record %d", i)
		}
		unitRow := recs[i+nColFields]
		if len(unitRow) < 3 || unitRow[0] != "" || unitRow[2] != "CI" {
			return nil, fmt.Errorf("record %d: expected the unit row, got %q", i+nColFields, unitRow)
		}
		t.unit = unitRow[1]
		ncols := 0
		for c := range unitRow {
			if e := expOf(c); e >= 0 && unitRow[c] == t.unit {
				ncols = e + 1
			}
		}
		for e := 0; e < ncols; e++ {
			var vals []string
			for f := 0; f < nColFields; f++ {
				row := recs[i+f]
				if startCol(e) < len(row) && row[startCol(e)] != "" {
					vals = append(vals, row[startCol(e)])
				}
			}
			t.cols = append(t.cols, strings.Join(vals, " "))
		}
		i += nColFields + 1
		for i < len(recs) {
			rec := recs[i]
			i++
			if rec[0] == "geomean" {
				for e := 0; e < ncols; e++ {
					var g [2]string
					if startCol(e) < len(rec) {
						g[0] = rec[startCol(e)]
					}
					if e > 0 && startCol(e)+2 < len(rec) {
						g[1] = rec[startCol(e)+2]
					}
					t.geomean[e] = g
				}
				break
			}
			cells := map[int]*verifCSVCell{}
			for e := 0; e < ncols; e++ {
				sc := startCol(e)
				if sc >= len(rec) || rec[sc] == "" {
					continue
				}
				c := &verifCSVCell{center: rec[sc]}
				if sc+1 < len(rec) {
					c.ci = rec[sc+1]
				}
				if e > 0 && sc+3 < len(rec) && rec[sc+3] != "" {
					c.delta, c.cmp, c.hasCmp = rec[sc+2], rec[sc+3], true
				}
				cells[e] = c
			}
			if _, dup := t.rows[rec[0]]; dup {
				return nil, fmt.Errorf("row label %q appears twice in one table", rec[0])
			}
			t.rows[rec[0]] = cells
		}
		tables = append(tables, t)
	}
	return tables, nil
}

func verifClose(a, b float64) bool {
	if a == b {
		return true
	}
	return math.Abs(a-b) <= 1e-9*math.Max(math.Abs(a), math.Abs(b))
}


// verifGenInputs writes 1-3 benchmark files and returns the benchstat arguments
// (labelled paths) together with the measurements the files contain.
func verifGenInputs(rnd func(int) int, dir string, round int, names []string) ([]string, []*verifMeas) {
		// generate the input files and, alongside, the measurements they contain
		var meas []*verifMeas
		var args []string
		used := map[int]bool{}
		fresh := func() int {
			for {
				v := 100 + rnd(90000)
				if !used[v] {
					used[v] = true
					return v
				}
			}
		}
		nf := 1 + rnd(3)
		for f := 0; f < nf; f++ {
			var b strings.Builder
			label := fmt.Sprintf("F%d", f)
			cfg := map[string]string{}
			nblocks := 1 + rnd(3)
			for bl := 0; bl < nblocks; bl++ {
				if bl == 0 || rnd(2) == 0 {
					cfg["goos"] = []string{"linux", "darwin"}[rnd(2)]
					fmt.Fprintf(&b, "goos: %s\n", cfg["goos"])
				}
				switch rnd(4) {
				case 0:
					cfg["note"] = "a"
					b.WriteString("note: a\n")
				case 1:
					cfg["note"] = "b"
					b.WriteString("note: b\n")
				case 2:
					if _, ok := cfg["note"]; ok {
						cfg["note"] = ""
						b.WriteString("note:\n")
					}
				}
				b.WriteString("\n")
				nb := 1 + rnd(3)
				for bi := 0; bi < nb; bi++ {
					name := names[rnd(len(names))]
					reps := 1 + rnd(6)
					twoUnits := rnd(2) == 0
					for r := 0; r < reps; r++ {
						c := map[string]string{}
						for k, v := range cfg {
							c[k] = v
						}
						v1 := fresh()
						fmt.Fprintf(&b, "Benchmark%s %d %d ns/op", name, 1+rnd(1000), v1)
						meas = append(meas, &verifMeas{label, c, name, "sec/op", float64(v1) * 1e-9})
						if twoUnits {
							v2 := fresh()
							fmt.Fprintf(&b, " %d widgets", v2)
							meas = append(meas, &verifMeas{label, c, name, "widgets", float64(v2)})
						}
						b.WriteString("\n")
					}
				}
			}
			p := filepath.Join(dir, fmt.Sprintf("r%d-f%d.txt", round, f))
			if err := os.WriteFile(p, []byte(b.String()), 0666); err != nil {
				panic(err)
			}
			args = append(args, label+"="+p)
		}
	return args, meas
}

// verifZeroGeomean: columns whose geometric mean does not exist (a centre of zero).
// The summary row of the CSV rendering may use only the label, summary and "vs base"
// positions of each column, and must show the same ratios as the text rendering.
func verifZeroGeomean(dir string, bad func(string, ...any)) int {
	n := 0
	scenarios := [][2]string{
		{"BenchmarkA 1 0 ns/op\nBenchmarkB 1 10 ns/op\n", "BenchmarkA 1 0 ns/op\nBenchmarkB 1 20 ns/op\n"},
		{"BenchmarkA 1 5 ns/op\nBenchmarkB 1 10 ns/op\n", "BenchmarkA 1 0 ns/op\nBenchmarkB 1 20 ns/op\n"},
		{"BenchmarkA 1 0 ns/op\nBenchmarkB 1 10 ns/op\n", "BenchmarkA 1 5 ns/op\nBenchmarkB 1 20 ns/op\n"},
		{"BenchmarkA 1 5 ns/op\nBenchmarkB 1 10 ns/op\n", "BenchmarkA 1 7 ns/op\nBenchmarkB 1 20 ns/op\n"},
	}
	for si, sc := range scenarios {
		for _, third := range []bool{false, true} {
			n++
			var args []string
			texts := []string{sc[0], sc[1]}
			if third {
				texts = append(texts, sc[1])
			}
			for f, text := range texts {
				p := filepath.Join(dir, fmt.Sprintf("zero-%d-%v-%d.txt", si, third, f))
				if err := os.WriteFile(p, []byte(strings.Repeat(text, 3)), 0666); err != nil {
					panic(err)
				}
				args = append(args, fmt.Sprintf("F%d=%s", f, p))
			}
			var txt, csvOut, e1, e2 bytes.Buffer
			if err := benchstat(&txt, &e1, args); err != nil {
				bad("zero-centre scenario %d: text: %v", si, err)
				continue
			}
			if err := benchstat(&csvOut, &e2, append([]string{"-format", "csv"}, args...)); err != nil {
				bad("zero-centre scenario %d: csv: %v", si, err)
				continue
			}
			r := csv.NewReader(strings.NewReader(csvOut.String()))
			r.FieldsPerRecord = -1
			recs, _ := r.ReadAll()
			var csvRatios, txtRatios []string
			for _, rec := range recs {
				if len(rec) == 0 || rec[0] != "geomean" {
					continue
				}
				for c := 1; c < len(rec); c++ {
					if rec[c] == "" {
						continue
					}
					isSummary := c == 1 || c >= 3 && (c-3)%4 == 0
					isRatio := c >= 5 && (c-5)%4 == 0
					if !isSummary && !isRatio {
						bad("zero-centre scenario %d (%d files): CSV summary row %q has %q in field %d, which is neither a column's summary nor its 'vs base' field\n%s", si, len(texts), rec, rec[c], c, csvOut.String())
					}
					if isRatio {
						csvRatios = append(csvRatios, rec[c])
					}
				}
			}
			for _, line := range strings.Split(txt.String(), "\n") {
				f := strings.Fields(line)
				if len(f) == 0 || f[0] != "geomean" {
					continue
				}
				for _, tok := range f[1:] {
					if strings.HasSuffix(tok, "%") || tok == "?" {
						txtRatios = append(txtRatios, tok)
					}
				}
			}
			if fmt.Sprint(csvRatios) != fmt.Sprint(txtRatios) {
				bad("zero-centre scenario %d (%d files): summary-row ratios: text %q, CSV %q\n%s\n%s", si, len(texts), txtRatios, csvRatios, txt.String(), csvOut.String())
			}
		}
	}
	return n
}

func verifPipeline(t *testing.T, tier string) {
	n, fails := 0, 0
	bad := func(f string, args ...any) {
		fails++
		if fails <= 12 {
			t.Errorf("REPLAY-FAIL "+f, args...)
		}
	}
	seed := uint64(7)
	if s := os.Getenv("VERIF_SEED"); s != "" {
		if v, err := strconv.ParseUint(s, 10, 64); err == nil {
			seed = v
		}
	}
	rnd := func(k int) int {
		seed = seed*6364136223846793005 + 1442695040888963407
		return int((seed >> 33) % uint64(k))
	}
	rounds := 200
	if tier == "thorough" {
		rounds = 3000
	}
	dir := t.TempDir()
	settings := verifSettings()
	names := []string{"X", "X-8", "Y/size=1", "Y/size=2", "Y/size=1-8", "Z"}
	for round := 0; round < rounds; round++ {
		args, meas := verifGenInputs(rnd, dir, round, names)
		for si, set := range settings {
			var out, errOut bytes.Buffer
			full := append(append([]string{"-format", "csv"}, set.args...), args...)
			if err := benchstat(&out, &errOut, full); err != nil {
				bad("round %d setting %d: benchstat %v: %v", round, si, full, err)
				continue
			}
			// expected cells
			type cellKey struct{ table, row, col string }
			want := map[cellKey][]float64{}
			wantResidue := map[cellKey]map[string]map[string]bool{} // field -> set of values
			colFields := 0
			for _, m := range meas {
				if !set.keep(m) {
					continue
				}
				ck := cellKey{verifKeyString(set.table(m)) + " .unit:" + m.unit, verifValues(set.row(m)), verifValues(set.col(m))}
				want[ck] = append(want[ck], m.value)
				if wantResidue[ck] == nil {
					wantResidue[ck] = map[string]map[string]bool{}
				}
				seen := map[string]bool{}
				for _, kv := range set.residue(m) {
					seen[kv[0]] = true
					if wantResidue[ck][kv[0]] == nil {
						wantResidue[ck][kv[0]] = map[string]bool{}
					}
					wantResidue[ck][kv[0]][kv[1]] = true
				}
				for f := range wantResidue[ck] {
					if !seen[f] {
						wantResidue[ck][f][""] = true
					}
				}
			}
			// fields seen only later count as empty for the earlier measurements of the cell
			for ck := range wantResidue {
				cnt := map[string]int{}
				tot := 0
				for _, m := range meas {
					if !set.keep(m) {
						continue
					}
					k2 := cellKey{verifKeyString(set.table(m)) + " .unit:" + m.unit, verifValues(set.row(m)), verifValues(set.col(m))}
					if k2 != ck {
						continue
					}
					tot++
					for _, kv := range set.residue(m) {
						cnt[kv[0]]++
					}
				}
				for f, c := range cnt {
					if c < tot {
						wantResidue[ck][f][""] = true
					}
				}
			}
			switch si {
			case 7:
				colFields = 2
			default:
				colFields = 1
			}
			tables, err := verifParseCSV(out.String(), colFields)
			if err != nil {
				bad("round %d setting %d %v: cannot parse CSV: %v\n%s", round, si, full, err, out.String())
				continue
			}
			// every output cell must be an expected cell with the right statistics
			got := map[cellKey]*verifCSVCell{}
			gotBase := map[cellKey]cellKey{}
			for _, tb := range tables {
				var hk []string
				for k := range tb.hdr {
					hk = append(hk, k)
				}
				sort.Strings(hk)
				var tkv [][2]string
				for _, k := range hk {
					if tb.hdr[k] != "" {
						tkv = append(tkv, [2]string{k, tb.hdr[k]})
					}
				}
				tk := verifKeyString(tkv) + " .unit:" + tb.unit
				for label, cells := range tb.rows {
					for e, c := range cells {
						ck := cellKey{tk, label, tb.cols[e]}
						if _, dup := got[ck]; dup {
							bad("round %d setting %d: cell %v appears twice", round, si, ck)
						}
						got[ck] = c
						gotBase[ck] = cellKey{tk, label, tb.cols[0]}
					}
				}
				// geomean row: geometric mean of the column's centres
				for e := range tb.cols {
					var logs []float64
					for _, cells := range tb.rows {
						if c, ok := cells[e]; ok {
							v, _ := strconv.ParseFloat(c.center, 64)
							logs = append(logs, math.Log(v))
						}
					}
					if len(logs) == 0 {
						continue
					}
					s := 0.0
					for _, l := range logs {
						s += l
					}
					n++
					gm, err := strconv.ParseFloat(tb.geomean[e][0], 64)
					if err != nil || math.Abs(gm-math.Exp(s/float64(len(logs)))) > 1e-9*gm {
						bad("round %d setting %d table %q column %q: geomean %q, want %v", round, si, tk, tb.cols[e], tb.geomean[e][0], math.Exp(s/float64(len(logs))))
					}
				}
			}
			for ck, vals := range want {
				n++
				c, ok := got[ck]
				if !ok {
					bad("round %d setting %d %v: no cell for table [%s] row [%s] column [%s] (%d measurements)\n%s", round, si, full, ck.table, ck.row, ck.col, len(vals), out.String())
					continue
				}
				center, err := strconv.ParseFloat(c.center, 64)
				if err != nil || !verifClose(center, verifMedian(vals)) {
					bad("round %d setting %d %v: cell %v centre %q, want the median %v of %v", round, si, full, ck, c.center, verifMedian(vals), vals)
				}
				bk := gotBase[ck]
				bvals, haveBase := want[bk]
				if bk == ck {
					haveBase = false
				}
				if haveBase != c.hasCmp {
					bad("round %d setting %d %v: cell %v comparison present=%v, baseline cell exists=%v", round, si, full, ck, c.hasCmp, haveBase)
					continue
				}
				if !haveBase {
					continue
				}
				// sample sizes: baseline first
				wantN := fmt.Sprintf("n=%d+%d", len(bvals), len(vals))
				if len(bvals) == len(vals) {
					wantN = fmt.Sprintf("n=%d", len(vals))
				}
				if !strings.HasSuffix(c.cmp, wantN) {
					bad("round %d setting %d %v: cell %v reports %q, want sample sizes %s (baseline first)", round, si, full, ck, c.cmp, wantN)
				}
				if len(bvals)+len(vals) <= 14 {
					p := verifExactP(bvals, vals)
					wantP := fmt.Sprintf("p=%0.3f ", p)
					if !strings.HasPrefix(c.cmp, wantP) {
						bad("round %d setting %d %v: cell %v reports %q, want %s(exact rank-sum p of %v vs %v)", round, si, full, ck, c.cmp, wantP, bvals, vals)
					}
					wantDelta := "~"
					if p <= 0.05 {
						wantDelta = fmt.Sprintf("%+.2f%%", (verifMedian(vals)/verifMedian(bvals)-1)*100)
					}
					if c.delta != wantDelta {
						bad("round %d setting %d %v: cell %v delta %q, want %q", round, si, full, ck, c.delta, wantDelta)
					}
				}
			}
			for ck := range got {
				n++
				if _, ok := want[ck]; !ok {
					bad("round %d setting %d %v: output has a cell %v that no measurement falls into\n%s", round, si, full, ck, out.String())
				}
			}
			// residue warnings: one per cell whose measurements differ in an unprojected key
			var wantWarn []string
			for ck, fields := range wantResidue {
				var varying []string
				for f, vals := range fields {
					if len(vals) > 1 {
						varying = append(varying, f)
					}
				}
				if len(varying) > 0 {
					sort.Strings(varying)
					wantWarn = append(wantWarn, strings.Join(varying, ", "))
				}
				_ = ck
			}
			var gotWarn []string
			for _, line := range strings.Split(errOut.String(), "\n") {
				if i := strings.Index(line, "benchmarks vary in "); i >= 0 {
					fs := strings.Split(line[i+len("benchmarks vary in "):], ", ")
					sort.Strings(fs)
					gotWarn = append(gotWarn, strings.Join(fs, ", "))
				}
			}
			sort.Strings(wantWarn)
			sort.Strings(gotWarn)
			n++
			if strings.Join(wantWarn, " | ") != strings.Join(gotWarn, " | ") {
				bad("round %d setting %d %v: residue warnings %q, want %q\nstderr:\n%s\nstdout:\n%s", round, si, full, gotWarn, wantWarn, errOut.String(), out.String())
			}
		}
	}
	n += verifZeroGeomean(dir, bad)
	fmt.Printf("BOUNDED-RESULT {\"cases\": %d, \"failures\": %d, \"bound\": \"8 inputs with zero centres (summary row without a geometric mean); %d random input sets (1-3 labelled files, changing goos/note configuration, 6 benchmark names with /size and gomaxprocs, two units, 1-6 repetitions, distinct values) x %d flag settings\", \"exhaustive\": false}\n", n, fails, rounds, len(settings))
}

// ---------------------------------------------------------------------------
// C16: the text rendering agrees with the CSV rendering and is laid out in columns.

type verifTok struct {
	text       string
	start, end int // rune offsets
}

func verifFields(line string) []verifTok {
	var out []verifTok
	pos := 0
	cur := -1
	var sb strings.Builder
	for _, r := range line {
		if r == ' ' {
			if cur >= 0 {
				out = append(out, verifTok{sb.String(), cur, pos})
				cur = -1
				sb.Reset()
			}
		} else {
			if cur < 0 {
				cur = pos
			}
			sb.WriteRune(r)
		}
		pos++
	}
	if cur >= 0 {
		out = append(out, verifTok{sb.String(), cur, pos})
	}
	return out
}

func verifIsSuper(s string) bool {
	for _, r := range s {
		if !strings.ContainsRune("⁰¹²³⁴⁵⁶⁷⁸⁹", r) {
			return false
		}
	}
	return s != ""
}

var verifPrefixes = map[string]float64{"": 1, "n": 1e-9, "µ": 1e-6, "m": 1e-3, "k": 1e3, "M": 1e6, "G": 1e9, "T": 1e12,
	"Ki": 1024, "Mi": 1024 * 1024, "Gi": 1024 * 1024 * 1024}

// verifScaled parses "102.5n" into its value and the value of one unit in the last printed digit.
func verifScaled(s string) (v, ulp float64, ok bool) {
	i := 0
	for i < len(s) && (s[i] >= '0' && s[i] <= '9' || s[i] == '.' || s[i] == '-' || s[i] == '+') {
		i++
	}
	num, suffix := s[:i], s[i:]
	mult, okp := verifPrefixes[suffix]
	if !okp {
		return 0, 0, false
	}
	f, err := strconv.ParseFloat(num, 64)
	if err != nil {
		return 0, 0, false
	}
	dec := 0
	if j := strings.IndexByte(num, '.'); j >= 0 {
		dec = len(num) - j - 1
	}
	return f * mult, math.Pow(10, -float64(dec)) * mult, true
}

func verifTextCSV(t *testing.T, tier string) {
	n, fails := 0, 0
	bad := func(f string, args ...any) {
		fails++
		if fails <= 12 {
			t.Errorf("REPLAY-FAIL "+f, args...)
		}
	}
	seed := uint64(11)
	if s := os.Getenv("VERIF_SEED"); s != "" {
		if v, err := strconv.ParseUint(s, 10, 64); err == nil {
			seed = v
		}
	}
	rnd := func(k int) int {
		seed = seed*6364136223846793005 + 1442695040888963407
		return int((seed >> 33) % uint64(k))
	}
	rounds := 150
	if tier == "thorough" {
		rounds = 3000
	}
	dir := t.TempDir()
	names := []string{"X", "X-8", "Y/size=1", "Y/size=2", "Y/size=1-8", "Z", "Größe/日本=語"}
	flagSets := [][]string{nil, {"-row", ".name", "-col", "/size"}, {"-table", "goos"}, {"-col", ".file,goos"}, {"-col", "goos,note"}}
	colFieldsOf := []int{1, 1, 1, 2, 2}
	for round := 0; round < rounds; round++ {
		args, _ := verifGenInputs(rnd, dir, round, names)
		for fi, fl := range flagSets {
			var txt, txtErr, csvOut, csvErr bytes.Buffer
			if err := benchstat(&txt, &txtErr, append(append([]string{}, fl...), args...)); err != nil {
				bad("round %d: text: %v", round, err)
				continue
			}
			if err := benchstat(&csvOut, &csvErr, append(append([]string{"-format", "csv"}, fl...), args...)); err != nil {
				bad("round %d: csv: %v", round, err)
				continue
			}
			ctabs, err := verifParseCSV(csvOut.String(), colFieldsOf[fi])
			if err != nil {
				bad("round %d flags %v: cannot parse CSV: %v", round, fl, err)
				continue
			}
			// CSV rows in order (verifParseCSV keeps maps; re-read the order from the raw records)
			r := csv.NewReader(strings.NewReader(csvOut.String()))
			r.FieldsPerRecord = -1
			recs, _ := r.ReadAll()
			var csvLabels [][]string // per table: row labels in order, without geomean
			{
				var cur []string
				inTable := false
				for _, rec := range recs {
					switch {
					case len(rec) >= 3 && rec[0] == "" && rec[2] == "CI":
						inTable = true
						cur = nil
					case inTable && rec[0] == "geomean":
						csvLabels = append(csvLabels, cur)
						inTable = false
					case inTable:
						cur = append(cur, rec[0])
					}
				}
			}
			// split the text into table blocks
			type block struct {
				hdrRows, dataRows, foot []string
				geomean                 string
			}
			var blocks []*block
			var cur *block
			lines := strings.Split(strings.TrimSuffix(txt.String(), "\n"), "\n")
			for _, line := range lines {
				n++
				// (table-key headings such as "note: " with an empty value are not table lines)
				if strings.HasSuffix(line, " ") && !(strings.HasSuffix(line, ": ") && !strings.Contains(line, "│")) {
					bad("round %d flags %v: line %q ends in blanks", round, fl, line)
				}
				first := ""
				if f := verifFields(line); len(f) > 0 {
					first = f[0].text
				}
				switch {
				case strings.Contains(line, "│"):
					if cur == nil || len(cur.dataRows) > 0 || cur.geomean != "" {
						cur = &block{}
						blocks = append(blocks, cur)
					}
					cur.hdrRows = append(cur.hdrRows, line)
				case line == "":
					cur = nil
				case verifIsSuper(first):
					if cur != nil {
						cur.foot = append(cur.foot, line)
					}
				case cur != nil && first == "geomean":
					cur.geomean = line
				case cur != nil && len(cur.hdrRows) > 0 && !(strings.Contains(line, ": ") && !strings.Contains(line, "±")):
					cur.dataRows = append(cur.dataRows, line)
				default:
					cur = nil // a "key: value" heading
				}
			}
			n++
			if len(blocks) != len(ctabs) {
				bad("round %d flags %v: text has %d tables, CSV has %d\n%s\n%s", round, fl, len(blocks), len(ctabs), txt.String(), csvOut.String())
				continue
			}
			var textWarn []string
			for ti, b := range blocks {
				ct := ctabs[ti]
				labels := csvLabels[ti]
				n++
				if len(b.dataRows) != len(labels) {
					bad("round %d flags %v table %d: text has %d rows, CSV has %d\n%s", round, fl, ti, len(b.dataRows), len(labels), txt.String())
					continue
				}
				// separators: every header row has a rule at the same offsets as the unit row
				unitRow := b.hdrRows[len(b.hdrRows)-1]
				var rules []int
				pos := 0
				for _, r := range unitRow {
					if r == '│' {
						rules = append(rules, pos)
					}
					pos++
				}
				if len(rules) != len(ct.cols)+1 {
					bad("round %d flags %v table %d: unit row has %d rules for %d columns: %q", round, fl, ti, len(rules), len(ct.cols), unitRow)
					continue
				}
				for _, h := range b.hdrRows {
					n++
					pos := 0
					for _, r := range h {
						if r == '│' {
							found := false
							for _, x := range rules {
								if x == pos {
									found = true
								}
							}
							if !found {
								bad("round %d flags %v table %d: header rule at offset %d is not a column boundary %v\n%s", round, fl, ti, pos, rules, strings.Join(b.hdrRows, "\n"))
							}
						}
						pos++
					}
					if utf8.RuneCountInString(h) != rules[len(rules)-1]+1 {
						bad("round %d flags %v table %d: header line does not end at the right rule: %q", round, fl, ti, h)
					}
				}
				numEnd := map[int]int{}
				for ri, line := range b.dataRows {
					label := labels[ri]
					n++
					if !strings.HasPrefix(line, label) {
						bad("round %d flags %v table %d: text row %q does not start with the CSV label %q", round, fl, ti, line, label)
						continue
					}
					skip := utf8.RuneCountInString(label)
					var toks []verifTok
					for _, tk := range verifFields(line) {
						if tk.start >= skip && !verifIsSuper(tk.text) {
							toks = append(toks, tk)
						}
					}
					cells := ct.rows[label]
					k := 0
					next := func() *verifTok {
						if k < len(toks) {
							k++
							return &toks[k-1]
						}
						return &verifTok{"<missing>", -1, -1}
					}
					for e := 0; e < len(ct.cols); e++ {
						c, ok := cells[e]
						if !ok {
							continue
						}
						num := next()
						cv, _ := strconv.ParseFloat(c.center, 64)
						tv, ulp, okn := verifScaled(num.text)
						if !okn || math.Abs(tv-cv) > 0.5*ulp*(1+1e-9)+1e-12*math.Abs(cv) {
							bad("round %d flags %v table %d row %q column %d: text shows %q, CSV value is %s", round, fl, ti, label, e, num.text, c.center)
						}
						// the number lies inside its column's rules and right-aligned numbers share their end offset
						if num.start <= rules[e] || num.end > rules[e+1] {
							bad("round %d flags %v table %d row %q column %d: %q at [%d,%d) is outside its column (%d,%d]\n%s", round, fl, ti, label, e, num.text, num.start, num.end, rules[e], rules[e+1], txt.String())
						}
						if prev, ok := numEnd[e]; ok && prev != num.end {
							bad("round %d flags %v table %d column %d: numbers end at offsets %d and %d\n%s", round, fl, ti, e, prev, num.end, txt.String())
						}
						numEnd[e] = num.end
						if pm := next(); pm.text != "±" {
							bad("round %d flags %v table %d row %q column %d: expected ± after the value, found %q in %q", round, fl, ti, label, e, pm.text, line)
						}
						if ci := next(); ci.text != c.ci {
							bad("round %d flags %v table %d row %q column %d: text interval %q, CSV %q", round, fl, ti, label, e, ci.text, c.ci)
						}
						if c.hasCmp {
							if d := next(); d.text != c.delta {
								bad("round %d flags %v table %d row %q column %d: text delta %q, CSV %q", round, fl, ti, label, e, d.text, c.delta)
							}
							var parts []string
							for _, w := range strings.Fields("(" + c.cmp + ")") {
								parts = append(parts, w)
							}
							for _, w := range parts {
								if g := next(); g.text != w {
									bad("round %d flags %v table %d row %q column %d: text comparison token %q, CSV %q", round, fl, ti, label, e, g.text, w)
								}
							}
							if last := toks[k-1]; last.end > rules[e+1] {
								bad("round %d flags %v table %d row %q column %d: comparison runs past the column rule\n%s", round, fl, ti, label, e, txt.String())
							}
						}
					}
					if k != len(toks) {
						bad("round %d flags %v table %d row %q: %d unexpected extra tokens in text row %q", round, fl, ti, label, len(toks)-k, line)
					}
				}
				for _, f := range b.foot {
					fs := verifFields(f)
					if len(fs) > 1 {
						textWarn = append(textWarn, strings.TrimSpace(strings.SplitN(f, " ", 2)[1]))
					}
				}
			}
			// the set of warning messages is the same in both renderings
			var csvWarn []string
			seen := map[string]bool{}
			for _, l := range strings.Split(csvErr.String(), "\n") {
				if i := strings.Index(l, ": "); i >= 0 {
					seen[l[i+2:]] = true
				}
			}
			for w := range seen {
				csvWarn = append(csvWarn, w)
			}
			seenT := map[string]bool{}
			for _, w := range textWarn {
				seenT[w] = true
			}
			textWarn = textWarn[:0]
			for w := range seenT {
				textWarn = append(textWarn, w)
			}
			sort.Strings(csvWarn)
			sort.Strings(textWarn)
			n++
			if strings.Join(csvWarn, " | ") != strings.Join(textWarn, " | ") {
				bad("round %d flags %v: text footnotes %q, CSV warnings %q", round, fl, textWarn, csvWarn)
			}
		}
	}
	// many distinct warnings in one table: every footnote mark is distinct and leads from
	// the row that carries it to that row's own warning (the CSV stream names the cell)
	for _, nb := range []int{3, 9, 12, 25, 101} {
		var b strings.Builder
		b.WriteString("Unit widgets assume=exact\n")
		for k := 0; k < nb; k++ {
			fmt.Fprintf(&b, "BenchmarkB%03d 1 %d widgets\nBenchmarkB%03d 1 %d widgets\n", k, 1000+10*k, k, 1000+10*k+1)
		}
		p := filepath.Join(dir, fmt.Sprintf("warn%d.txt", nb))
		if err := os.WriteFile(p, []byte(b.String()), 0666); err != nil {
			t.Fatal(err)
		}
		var txt, txtErr bytes.Buffer
		if err := benchstat(&txt, &txtErr, []string{p}); err != nil {
			bad("warnings table (%d rows): %v", nb, err)
			continue
		}
		foot := map[string]string{}
		var rows []string
		for _, line := range strings.Split(txt.String(), "\n") {
			f := verifFields(line)
			if len(f) == 0 {
				continue
			}
			if verifIsSuper(f[0].text) {
				n++
				if _, dup := foot[f[0].text]; dup {
					bad("warnings table (%d rows): footnote mark %s is used for two different footnotes\n%s", nb, f[0].text, txt.String())
				}
				foot[f[0].text] = strings.TrimSpace(line[len(f[0].text):])
			} else if strings.HasPrefix(f[0].text, "B") && len(f[0].text) == 4 {
				rows = append(rows, line)
			}
		}
		n++
		if len(rows) != nb || len(foot) != nb {
			bad("warnings table: %d rows and %d footnotes for %d benchmarks with one warning each\n%s", len(rows), len(foot), nb, txt.String())
			continue
		}
		for _, line := range rows {
			f := verifFields(line)
			k, _ := strconv.Atoi(f[0].text[1:])
			want := fmt.Sprintf("exact distribution expected, but values range from %d to %d", 1000+10*k, 1000+10*k+1)
			n++
			found := false
			for _, tk := range f[1:] {
				if verifIsSuper(tk.text) && foot[tk.text] == want {
					found = true
				}
			}
			if !found {
				bad("warnings table (%d rows): the marks on row %q do not lead to its warning %q\n%s", nb, line, want, txt.String())
			}
		}
	}
	n += verifZeroGeomean(dir, bad)
	fmt.Printf("BOUNDED-RESULT {\"cases\": %d, \"failures\": %d, \"bound\": \"%d random input sets x %d flag settings, text and CSV renderings compared; tables with 3..101 distinct footnotes; 8 inputs with zero centres (no geometric mean): placement of the summary-row ratios\", \"exhaustive\": false}\n", n, fails, rounds, len(flagSets))
}
