// Bounded stand-ins for package stats (C11, C12, C17).  Injected with
// `go test -overlay`; nothing is written to the repository.

package stats

import (
	"fmt"
	"math"
	"math/big"
	"os"
	"sort"
	"strconv"
	"strings"
	"testing"
)

func TestVerifReplay(t *testing.T) { t.Log("NO-ORACLE") }

// verifEnumU: the exact null distribution of U by enumerating every assignment
// of the pooled values to a first group of size n1.  Returns P(U<=u), P(U>=u)
// for the observed u (first n1 values are the first sample) and the whole
// distribution keyed by 2U.
func verifEnumU(pool []float64, n1 int) (obs, pLE, pGE float64, dist map[int]float64) {
	n := len(pool)
	uOf := func(in []bool) float64 {
		u := 0.0
		for i := 0; i < n; i++ {
			if !in[i] {
				continue
			}
			for j := 0; j < n; j++ {
				if in[j] {
					continue
				}
				if pool[i] > pool[j] {
					u++
				} else if pool[i] == pool[j] {
					u += 0.5
				}
			}
		}
		return u
	}
	in := make([]bool, n)
	for i := 0; i < n1; i++ {
		in[i] = true
	}
	obs = uOf(in)
	for i := range in {
		in[i] = false
	}
	counts := map[int]int{}
	total := 0
	var rec func(start, left int)
	rec = func(start, left int) {
		if left == 0 {
			counts[int(2*uOf(in))]++
			total++
			return
		}
		for i := start; i <= n-left; i++ {
			in[i] = true
			rec(i+1, left-1)
			in[i] = false
		}
	}
	rec(0, n1)
	dist = map[int]float64{}
	le, ge := 0, 0
	for tu, c := range counts {
		dist[tu] = float64(c) / float64(total)
		if float64(tu)/2 <= obs {
			le += c
		}
		if float64(tu)/2 >= obs {
			ge += c
		}
	}
	return obs, float64(le) / float64(total), float64(ge) / float64(total), dist
}

func verifTies(pool []float64) bool {
	seen := map[float64]bool{}
	for _, v := range pool {
		if seen[v] {
			return true
		}
		seen[v] = true
	}
	return false
}

func verifNormalApprox(x1, x2 []float64, alt LocationHypothesis) (float64, bool) {
	n1, n2 := float64(len(x1)), float64(len(x2))
	u := 0.0
	for _, a := range x1 {
		for _, b := range x2 {
			if a > b {
				u++
			} else if a == b {
				u += 0.5
			}
		}
	}
	counts := map[float64]float64{}
	for _, v := range append(append([]float64(nil), x1...), x2...) {
		counts[v]++
	}
	tc := 0.0
	for _, c := range counts {
		tc += c*c*c - c
	}
	N := n1 + n2
	sigma := math.Sqrt(n1 * n2 / 12 * ((N + 1) - tc/(N*(N-1))))
	if sigma == 0 {
		return 0, false
	}
	num := u - n1*n2/2
	cdf := func(z float64) float64 { return 0.5 * math.Erfc(-z/math.Sqrt2) }
	switch alt {
	case LocationLess:
		return cdf((num + 0.5) / sigma), true
	case LocationGreater:
		return 1 - cdf((num-0.5)/sigma), true
	}
	if num > 0 {
		num -= 0.5
	} else if num < 0 {
		num += 0.5
	}
	z := num / sigma
	return 2 * math.Min(cdf(z), 1-cdf(z)), true
}

func TestVerifBounded(t *testing.T) {
	which := os.Getenv("VERIF_BOUNDED")
	tier := os.Getenv("VERIF_TIER")
	known := "," + os.Getenv("VERIF_KNOWN_CLASSES") + ","
	if which != "utest" {
		verifBoundedOther(t, which, tier)
		return
	}
	knownTwoSidedTies := strings.Contains(known, ",two-sided-ties,")
	maxTotal := 8
	if tier == "thorough" {
		maxTotal = 10
	}
	alphabet := []float64{1, 2, 3, 4}
	n, fails, classFails := 0, 0, 0
	classExample := ""
	bad := func(f string, args ...any) {
		fails++
		if fails <= 12 {
			t.Errorf("REPLAY-FAIL "+f, args...)
		}
	}
	var samples [][]float64
	var gen func(cur []float64, start int)
	gen = func(cur []float64, start int) {
		if len(cur) > 0 {
			samples = append(samples, append([]float64(nil), cur...))
		}
		if len(cur) == maxTotal-1 {
			return
		}
		for i := start; i < len(alphabet); i++ {
			gen(append(cur, alphabet[i]), i)
		}
	}
	gen(nil, 0)
	eq := func(a, b float64) bool { return math.Abs(a-b) <= 1e-12 }
	for _, a := range samples {
		for _, b := range samples {
			if len(a)+len(b) > maxTotal {
				continue
			}
			n++
			pool := append(append([]float64(nil), a...), b...)
			allEq := true
			for _, v := range pool {
				if v != pool[0] {
					allEq = false
				}
			}
			less, errL := MannWhitneyUTest(a, b, LocationLess)
			if allEq {
				if errL != ErrSamplesEqual {
					bad("U-test(%v, %v): all values equal but error is %v", a, b, errL)
				}
				continue
			}
			if errL != nil {
				bad("U-test(%v, %v): unexpected error %v", a, b, errL)
				continue
			}
			greater, _ := MannWhitneyUTest(a, b, LocationGreater)
			two, _ := MannWhitneyUTest(a, b, LocationDiffers)
			twoSwap, _ := MannWhitneyUTest(b, a, LocationDiffers)
			obs, pLE, pGE, dist := verifEnumU(pool, len(a))
			if !eq(less.U, obs) {
				bad("U-test(%v, %v): U=%v, pair count gives %v", a, b, less.U, obs)
			}
			if !eq(less.P, pLE) {
				bad("U-test(%v, %v, less): p=%v, exact %v", a, b, less.P, pLE)
			}
			if !eq(greater.P, pGE) {
				bad("U-test(%v, %v, greater): p=%v, exact %v", a, b, greater.P, pGE)
			}
			want2 := math.Min(1, 2*math.Min(pLE, pGE))
			if !eq(two.P, want2) || !eq(two.P, twoSwap.P) || two.P < 0 || two.P > 1 {
				if verifTies(pool) && knownTwoSidedTies {
					classFails++
					if classExample == "" {
						classExample = strings.ReplaceAll(fmt.Sprintf("%v_vs_%v:p=%v_swapped=%v_exact=%v", a, b, two.P, twoSwap.P, want2), " ", "_")
					}
				} else {
					bad("U-test(%v, %v, differs): p=%v (swapped %v), twice the smaller tail capped at 1 is %v", a, b, two.P, twoSwap.P, want2)
				}
			}
			// the U distribution itself: mass function sums to 1 and accumulates to the distribution function
			T := []int{}
			sorted := append([]float64(nil), pool...)
			for i := range sorted {
				for j := i + 1; j < len(sorted); j++ {
					if sorted[j] < sorted[i] {
						sorted[i], sorted[j] = sorted[j], sorted[i]
					}
				}
			}
			for i := 0; i < len(sorted); {
				j := i
				for j < len(sorted) && sorted[j] == sorted[i] {
					j++
				}
				T = append(T, j-i)
				i = j
			}
			d := UDist{N1: len(a), N2: len(b)}
			if verifTies(pool) {
				d.T = T
			}
			sum, acc := 0.0, 0.0
			for tu := 0; tu <= 2*len(a)*len(b); tu++ {
				u := float64(tu) / 2
				if !verifTies(pool) && tu%2 == 1 {
					continue
				}
				pm := d.PMF(u)
				sum += pm
				acc += pm
				if !eq(pm, dist[tu]) {
					bad("UDist{%d,%d,%v}.PMF(%v) = %v, enumeration gives %v", d.N1, d.N2, d.T, u, pm, dist[tu])
					break
				}
				if c := d.CDF(u); !eq(c, acc) {
					bad("UDist{%d,%d,%v}.CDF(%v) = %v, accumulated mass %v", d.N1, d.N2, d.T, u, c, acc)
					break
				}
			}
			if !eq(sum, 1) {
				bad("UDist{%d,%d,%v}: mass sums to %v", d.N1, d.N2, d.T, sum)
			}
		}
	}
	// empty samples
	if _, err := MannWhitneyUTest(nil, []float64{1}, LocationLess); err != ErrSampleSize {
		bad("empty first sample: error %v", err)
	}
	if _, err := MannWhitneyUTest([]float64{1}, nil, LocationLess); err != ErrSampleSize {
		bad("empty second sample: error %v", err)
	}
	// binomial coefficients against big integers (the tied distribution divides by them)
	for nn := 0; nn <= 62; nn++ {
		for k := -1; k <= nn+1; k++ {
			n++
			want := new(big.Float).SetInt(new(big.Int).Binomial(int64(nn), int64(k)))
			if k < 0 || k > nn {
				want = big.NewFloat(0)
			}
			w, _ := want.Float64()
			got := mathChoose(nn, k)
			if math.Abs(got-w) > 1e-9*math.Max(1, w) {
				bad("mathChoose(%d, %d) = %v, want %v", nn, k, got, w)
			}
		}
	}
	// large samples: the tie- and continuity-corrected normal approximation, evaluated independently
	mk := func(n int, vals []float64, shift float64) []float64 {
		out := make([]float64, n)
		for i := range out {
			out[i] = vals[i%len(vals)] + shift*float64(i%3)
		}
		return out
	}
	for _, sz := range [][2]int{{10, 26}, {26, 10}, {26, 30}, {30, 45}, {25, 51}, {51, 51}, {60, 8}} {
		for _, vals := range [][]float64{{1, 2, 3}, {1, 2, 3, 4, 5}, {1, 1, 2}} {
			for _, alt := range []LocationHypothesis{LocationLess, LocationDiffers, LocationGreater} {
				n++
				x1, x2 := mk(sz[0], vals, 0), mk(sz[1], vals, 1)
				res, err := MannWhitneyUTest(x1, x2, alt)
				want, ok := verifNormalApprox(x1, x2, alt)
				if !ok {
					continue
				}
				if err != nil {
					bad("large tied samples %dv%d: %v", sz[0], sz[1], err)
					continue
				}
				if math.Abs(res.P-want) > 1e-9 {
					bad("U-test %dv%d over %v alt %v: p=%v, normal approximation gives %v", sz[0], sz[1], vals, alt, res.P, want)
				}
			}
		}
		n++
		all1, all2 := mk(sz[0], []float64{7}, 0), mk(sz[1], []float64{7}, 0)
		if _, err := MannWhitneyUTest(all1, all2, LocationDiffers); err != ErrSamplesEqual {
			bad("all-equal samples %dv%d: error %v, want ErrSamplesEqual", sz[0], sz[1], err)
		}
	}
	if knownTwoSidedTies {
		fmt.Printf("KNOWN-CLASS two-sided-ties %d %s\n", classFails, classExample)
	}
	fmt.Printf("BOUNDED-RESULT {\"cases\": %d, \"failures\": %d, \"bound\": \"all pairs of multisets over {1,2,3,4} with n1+n2 <= %d against brute-force enumeration of label assignments (U, both one-sided p, two-sided p with swap, PMF and CDF of the U distribution); mathChoose for n <= 62; the normal approximation on 7 large size pairs x 3 tie patterns x 3 alternatives; empty and all-equal samples\", \"exhaustive\": true}\n", n, fails, maxTotal)
}

func verifBoundedOther(t *testing.T, which, tier string) {
	switch which {
	case "dist":
		verifDist(t, tier)
	default:
		t.Skip("unknown bounded check " + which)
	}
}

// ---------------------------------------------------------------------------
// C12: distribution functions, t-tests and descriptive statistics

type verifTS struct{ n, mean, v float64 }

func (s verifTS) Weight() float64   { return s.n }
func (s verifTS) Mean() float64     { return s.mean }
func (s verifTS) Variance() float64 { return s.v }

// verifSimpson integrates f over [a,b] with 2*m panels.
func verifSimpson(f func(float64) float64, a, b float64, m int) float64 {
	h := (b - a) / float64(2*m)
	s := f(a) + f(b)
	for i := 1; i < 2*m; i++ {
		w := 2.0
		if i%2 == 1 {
			w = 4
		}
		s += w * f(a+float64(i)*h)
	}
	return s * h / 3
}

func verifDist(t *testing.T, tier string) {
	n, fails := 0, 0
	bad := func(f string, args ...any) {
		fails++
		if fails <= 15 {
			t.Errorf("REPLAY-FAIL "+f, args...)
		}
	}
	// a panic inside the numerical code (e.g. a continued fraction that does not converge) is a failure
	try := func(what string, f func()) {
		defer func() {
			if r := recover(); r != nil {
				bad("%s: panic: %v", what, r)
			}
		}()
		f()
	}
	seed := uint64(5)
	if s := os.Getenv("VERIF_SEED"); s != "" {
		if v, err := strconv.ParseUint(s, 10, 64); err == nil {
			seed = v
		}
	}
	rnd := func() float64 {
		seed = seed*6364136223846793005 + 1442695040888963407
		return float64(seed>>11) / float64(1<<53)
	}
	dofs := []float64{1, 1.5, 2, 3, 5, 7.25, 10, 30, 100, 342, 343, 400.5, 1000, 3000.5, 9000, 20000, 50000, 1e5}
	step := 0.01
	if tier == "thorough" {
		step = 0.001
		for i := 0; i < 60; i++ {
			dofs = append(dofs, math.Exp(rnd()*math.Log(1e5)))
		}
	}
	// 1. Student-t: range, monotone, symmetry, convergence everywhere, agreement with the density
	for _, v := range dofs {
		d := TDist{v}
		prev := 0.0
		first := true
		for x := -8.0; x <= 8.0+1e-9; x += step {
			x := x
			try(fmt.Sprintf("TDist{%v}.CDF(%v)", v, x), func() {
				n++
				p := d.CDF(x)
				if !(p >= 0 && p <= 1) {
					bad("TDist{%v}.CDF(%v) = %v outside [0,1]", v, x, p)
				}
				if !first && p < prev-1e-13 {
					bad("TDist{%v}.CDF not monotone: F(%v) = %v after %v", v, x, p, prev)
				}
				if q := d.CDF(-x); math.Abs(p+q-1) > 1e-12 {
					bad("TDist{%v}: F(%v)+F(%v) = %v, want 1", v, x, -x, p+q)
				}
				prev, first = p, false
			})
		}
		for _, iv := range [][2]float64{{-1, 0.5}, {0, 2}, {-3, -1}, {1.5, 4}} {
			iv := iv
			try(fmt.Sprintf("TDist{%v} density on %v", v, iv), func() {
				n++
				integ := verifSimpson(d.PDF, iv[0], iv[1], 400)
				want := d.CDF(iv[1]) - d.CDF(iv[0])
				if !(math.Abs(integ-want) <= 1e-8) {
					bad("TDist{%v}: integral of the density over [%v,%v] is %v, the distribution function gives %v", v, iv[0], iv[1], integ, want)
				}
			})
		}
		// generic inverse inverts the distribution function
		inv := InvCDF(d)
		for _, y := range []float64{0.001, 0.025, 0.2, 0.5, 0.7, 0.975, 0.999} {
			y := y
			try(fmt.Sprintf("InvCDF(TDist{%v})(%v)", v, y), func() {
				n++
				x := inv(y)
				if got := d.CDF(x); !(math.Abs(got-y) <= 1e-9) {
					bad("InvCDF(TDist{%v})(%v) = %v, but CDF there is %v", v, y, x, got)
				}
			})
		}
	}
	// 2. incomplete beta symmetry on the parameters the t distribution produces
	for _, v := range dofs {
		for _, tt := range []float64{0.01, 0.3, 1, 1.74, 2, 2.3, 3.5, 6} {
			v, tt := v, tt
			try(fmt.Sprintf("mathBetaInc for dof %v t %v", v, tt), func() {
				n++
				x := v / (v + tt*tt)
				a, b := v/2, 0.5
				l, r := mathBetaInc(x, a, b), 1-mathBetaInc(1-x, b, a)
				if !(math.Abs(l-r) <= 1e-10) {
					bad("I_x(a,b) = %v but 1 - I_(1-x)(b,a) = %v for x=%v a=%v b=%v", l, r, x, a, b)
				}
			})
		}
	}
	// 3. normal distribution
	for _, nd := range []NormalDist{{0, 1}, {3, 0.5}, {-10, 25}} {
		prev := -1.0
		for z := -8.0; z <= 8.0; z += step {
			n++
			x := nd.Mu + z*nd.Sigma
			p := nd.CDF(x)
			if !(p >= 0 && p <= 1) || p < prev-1e-15 {
				bad("NormalDist%v.CDF(%v) = %v (previous %v)", nd, x, p, prev)
			}
			if q := nd.CDF(nd.Mu - z*nd.Sigma); math.Abs(p+q-1) > 1e-12 {
				bad("NormalDist%v: F(mu+%vs)+F(mu-%vs) = %v", nd, z, z, p+q)
			}
			prev = p
		}
		n++
		if integ, want := verifSimpson(nd.PDF, nd.Mu-1.3*nd.Sigma, nd.Mu+0.7*nd.Sigma, 400), nd.CDF(nd.Mu+0.7*nd.Sigma)-nd.CDF(nd.Mu-1.3*nd.Sigma); math.Abs(integ-want) > 1e-9 {
			bad("NormalDist%v: density integrates to %v, distribution function gives %v", nd, integ, want)
		}
		for _, y := range []float64{1e-6, 0.001, 0.025, 0.3, 0.5, 0.9, 0.999, 1 - 1e-6} {
			n++
			x := nd.InvCDF(y)
			if got := nd.CDF(x); math.Abs(got-y) > 1e-9*math.Max(1, 0) && math.Abs(got-y) > 1e-7*y {
				bad("NormalDist%v.InvCDF(%v) = %v, CDF there is %v", nd, y, x, got)
			}
		}
	}
	// 4. t-tests against the textbook formulas, for unequal sizes
	upper := func(dof, tt float64) float64 { return 1 - TDist{dof}.CDF(tt) }
	cases := 2000
	if tier == "thorough" {
		cases = 40000
	}
	for i := 0; i < cases; i++ {
		n1, n2 := float64(2+int(rnd()*20)), float64(2+int(rnd()*20))
		a := verifTS{n1, rnd()*100 - 50, rnd() * 30}
		b := verifTS{n2, rnd()*100 - 50, rnd() * 30}
		for _, alt := range []LocationHypothesis{LocationLess, LocationDiffers, LocationGreater} {
			n++
			r, err := TwoSampleWelchTTest(a, b, alt)
			se2 := a.v/n1 + b.v/n2
			wt := (a.mean - b.mean) / math.Sqrt(se2)
			wdof := se2 * se2 / ((a.v/n1)*(a.v/n1)/(n1-1) + (b.v/n2)*(b.v/n2)/(n2-1))
			var wp float64
			switch alt {
			case LocationLess:
				wp = 1 - upper(wdof, wt)
			case LocationGreater:
				wp = upper(wdof, wt)
			default:
				wp = 2 * upper(wdof, math.Abs(wt))
			}
			if err != nil || math.Abs(r.T-wt) > 1e-9*math.Abs(wt) || math.Abs(r.DoF-wdof) > 1e-9*wdof || math.Abs(r.P-wp) > 1e-9 || r.N1 != int(n1) || r.N2 != int(n2) {
				bad("Welch(%v, %v, %v) = %+v, %v; textbook T=%v DoF=%v P=%v", a, b, alt, r, err, wt, wdof, wp)
			}
			n++
			r, err = TwoSampleTTest(a, b, alt)
			pv := ((n1-1)*a.v + (n2-1)*b.v) / (n1 + n2 - 2)
			pt := (a.mean - b.mean) / math.Sqrt(pv*(1/n1+1/n2))
			switch alt {
			case LocationLess:
				wp = 1 - upper(n1+n2-2, pt)
			case LocationGreater:
				wp = upper(n1+n2-2, pt)
			default:
				wp = 2 * upper(n1+n2-2, math.Abs(pt))
			}
			if err != nil || math.Abs(r.T-pt) > 1e-9*math.Abs(pt) || r.DoF != n1+n2-2 || math.Abs(r.P-wp) > 1e-9 {
				bad("pooled t-test(%v, %v, %v) = %+v, %v; textbook T=%v DoF=%v P=%v", a, b, alt, r, err, pt, n1+n2-2, wp)
			}
			n++
			r, err = OneSampleTTest(a, 1.5, alt)
			ot := (a.mean - 1.5) / math.Sqrt(a.v/n1)
			switch alt {
			case LocationLess:
				wp = 1 - upper(n1-1, ot)
			case LocationGreater:
				wp = upper(n1-1, ot)
			default:
				wp = 2 * upper(n1-1, math.Abs(ot))
			}
			if err != nil || math.Abs(r.T-ot) > 1e-9*math.Abs(ot) || r.DoF != n1-1 || math.Abs(r.P-wp) > 1e-9 {
				bad("one-sample t-test(%v, 1.5, %v) = %+v, %v; textbook T=%v P=%v", a, alt, r, err, ot, wp)
			}
		}
		// paired test on real vectors
		m := 2 + int(rnd()*12)
		xs, ys := make([]float64, m), make([]float64, m)
		for k := range xs {
			xs[k], ys[k] = rnd()*10, rnd()*10
		}
		n++
		r, err := PairedTTest(xs, ys, 0.25, LocationDiffers)
		var sum, ss float64
		for k := range xs {
			sum += xs[k] - ys[k]
		}
		md := sum / float64(m)
		for k := range xs {
			ss += (xs[k] - ys[k] - md) * (xs[k] - ys[k] - md)
		}
		sd := math.Sqrt(ss / float64(m-1))
		wt := (md - 0.25) / (sd / math.Sqrt(float64(m)))
		if err != nil || math.Abs(r.T-wt) > 1e-9*math.Abs(wt) || r.DoF != float64(m-1) || math.Abs(r.P-2*upper(float64(m-1), math.Abs(wt))) > 1e-9 {
			bad("paired t-test(%v, %v) = %+v, %v; textbook T=%v", xs, ys, r, err, wt)
		}
	}
	// errors
	n += 6
	if _, err := TwoSampleWelchTTest(verifTS{1, 0, 1}, verifTS{5, 0, 1}, LocationDiffers); err != ErrSampleSize {
		bad("Welch with a one-element sample: err = %v", err)
	}
	if _, err := TwoSampleWelchTTest(verifTS{4, 1, 0}, verifTS{5, 2, 0}, LocationDiffers); err != ErrZeroVariance {
		bad("Welch with zero variances: err = %v", err)
	}
	if _, err := TwoSampleTTest(verifTS{0, 0, 1}, verifTS{5, 0, 1}, LocationDiffers); err != ErrSampleSize {
		bad("pooled with an empty sample: err = %v", err)
	}
	if _, err := OneSampleTTest(verifTS{5, 0, 0}, 0, LocationDiffers); err != ErrZeroVariance {
		bad("one-sample with zero variance: err = %v", err)
	}
	if _, err := PairedTTest([]float64{1, 2}, []float64{1}, 0, LocationDiffers); err != ErrMismatchedSamples {
		bad("paired with different lengths: err = %v", err)
	}
	if _, err := PairedTTest([]float64{1}, []float64{2}, 0, LocationDiffers); err != ErrSampleSize {
		bad("paired with one pair: err = %v", err)
	}
	// 5. descriptive statistics against exact rational arithmetic
	samples := 2000
	if tier == "thorough" {
		samples = 40000
	}
	for i := 0; i < samples; i++ {
		m := 1 + int(rnd()*rnd()*300)
		xs := make([]float64, m)
		scale := math.Pow(10, math.Floor(rnd()*12)-6)
		off := 0.0
		if rnd() < 0.3 {
			off = scale * 1e3 // large common offset: cancellation stress
		}
		for k := range xs {
			xs[k] = off + scale*(rnd()*2-0.5)
			if rnd() < 0.1 && k > 0 {
				xs[k] = xs[k-1] // multiplicities
			}
		}
		maxAbs := 0.0
		lo, hi := xs[0], xs[0]
		sumR := new(big.Rat)
		for _, x := range xs {
			sumR.Add(sumR, new(big.Rat).SetFloat64(x))
			maxAbs = math.Max(maxAbs, math.Abs(x))
			lo, hi = math.Min(lo, x), math.Max(hi, x)
		}
		meanR := new(big.Rat).Quo(sumR, big.NewRat(int64(m), 1))
		meanF, _ := meanR.Float64()
		ulp := maxAbs * 0x1p-52
		n++
		if got := Mean(xs); !(math.Abs(got-meanF) <= 8*ulp) {
			bad("Mean of %d values of scale %g = %v, exact %v (off by %.1f ulps of the data)", m, scale, got, meanF, math.Abs(got-meanF)/ulp)
		}
		if m > 1 {
			ssR := new(big.Rat)
			for _, x := range xs {
				d := new(big.Rat).Sub(new(big.Rat).SetFloat64(x), meanR)
				ssR.Add(ssR, d.Mul(d, d))
			}
			varR := ssR.Quo(ssR, big.NewRat(int64(m-1), 1))
			varF, _ := varR.Float64()
			n++
			// the spread, not the offset, sets the scale of the variance; allow the offset's rounding too
			tol := 1e-9*varF + 64*ulp*ulp*float64(m)
			if got := Variance(xs); !(math.Abs(got-varF) <= tol) {
				bad("Variance of %d values (scale %g offset %g) = %v, exact %v", m, scale, off, got, varF)
			}
		}
		n++
		if gl, gh := Bounds(xs); gl != lo || gh != hi {
			bad("Bounds = %v, %v want %v, %v", gl, gh, lo, hi)
		}
		pos := true
		logs := 0.0
		for _, x := range xs {
			if x <= 0 {
				pos = false
			}
			logs += math.Log(x)
		}
		if pos {
			n++
			want := math.Exp(logs / float64(m))
			if got := GeoMean(xs); !(math.Abs(got-want) <= 1e-9*want) {
				bad("GeoMean of %d positive values = %v, want %v", m, got, want)
			}
		}
		// R8 percentiles: exact interpolation, monotone in p, inside [min, max], same for unsorted input
		sorted := append([]float64(nil), xs...)
		sort.Float64s(sorted)
		sa := Sample{Xs: xs}
		prev := math.Inf(-1)
		for _, p := range []float64{0, 0.01, 0.1, 0.25, 0.333, 0.5, 0.6, 0.75, 0.9, 0.99, 1} {
			n++
			got := sa.Percentile(p)
			if !(got >= lo && got <= hi) {
				bad("Percentile(%v) of %d values = %v outside [%v, %v]", p, m, got, lo, hi)
			}
			if got < prev {
				bad("Percentile not monotone at p=%v: %v after %v", p, got, prev)
			}
			prev = got
			// exact R8: h = (m + 1/3) p + 1/3
			if p > 0 && p < 1 {
				h := new(big.Rat).Add(new(big.Rat).Mul(new(big.Rat).Add(big.NewRat(int64(m), 1), big.NewRat(1, 3)), new(big.Rat).SetFloat64(p)), big.NewRat(1, 3))
				hf, _ := h.Float64()
				k := int(math.Floor(hf))
				var want float64
				switch {
				case k <= 0:
					want = sorted[0]
				case k >= m:
					want = sorted[m-1]
				default:
					fr := new(big.Rat).Sub(h, big.NewRat(int64(k), 1))
					d := new(big.Rat).Sub(new(big.Rat).SetFloat64(sorted[k]), new(big.Rat).SetFloat64(sorted[k-1]))
					w := new(big.Rat).Add(new(big.Rat).SetFloat64(sorted[k-1]), d.Mul(d, fr))
					want, _ = w.Float64()
				}
				if !(math.Abs(got-want) <= 1e-9*(hi-lo)+8*ulp) {
					bad("Percentile(%v) of %d values = %v, exact R8 value %v", p, m, got, want)
				}
			}
		}
	}
	fmt.Printf("BOUNDED-RESULT {\"cases\": %d, \"failures\": %d, \"bound\": \"t distribution for %d degrees of freedom in [1,1e5] on a grid of step %v over [-8,8] (range, monotone, symmetry, no panic, density integral, generic inverse); beta symmetry; 3 normal distributions; %d random t-test inputs with unequal sizes x 3 alternatives against the textbook formulas; %d random samples of 1-300 values, scales 1e-6..1e5, offsets and multiplicities, against exact rational evaluation\", \"exhaustive\": false}\n", n, fails, len(dofs), step, cases, samples)
}
