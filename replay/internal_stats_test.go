// Bounded stand-ins for package stats (C11, C12, C17).  Injected with
// `go test -overlay`; nothing is written to the repository.

package stats

import (
	"fmt"
	"math"
	"math/big"
	"os"
	"strings"
	"testing"
)

func TestVerifReplay(t *testing.T) { t.Log("NO-ORACLE") }

// verifEnumU: the exact null distribution of U by enumerating every assignment
// of the pooled values to a first group of size n1.  Returns P(U<=u), P(U>=u)
// for the observed u (first n1 values are the first sample) and the whole
// distribution keyed by 2U.
func verifEnumU(pool []float64, n1 int) (obs, pLE, pGE float64, dist map[int]float64) {
	n := len(pool)
	uOf := func(in []bool) float64 {
		u := 0.0
		for i := 0; i < n; i++ {
			if !in[i] {
				continue
			}
			for j := 0; j < n; j++ {
				if in[j] {
					continue
				}
				if pool[i] > pool[j] {
					u++
				} else if pool[i] == pool[j] {
					u += 0.5
				}
			}
		}
		return u
	}
	in := make([]bool, n)
	for i := 0; i < n1; i++ {
		in[i] = true
	}
	obs = uOf(in)
	for i := range in {
		in[i] = false
	}
	counts := map[int]int{}
	total := 0
	var rec func(start, left int)
	rec = func(start, left int) {
		if left == 0 {
			counts[int(2*uOf(in))]++
			total++
			return
		}
		for i := start; i <= n-left; i++ {
			in[i] = true
			rec(i+1, left-1)
			in[i] = false
		}
	}
	rec(0, n1)
	dist = map[int]float64{}
	le, ge := 0, 0
	for tu, c := range counts {
		dist[tu] = float64(c) / float64(total)
		if float64(tu)/2 <= obs {
			le += c
		}
		if float64(tu)/2 >= obs {
			ge += c
		}
	}
	return obs, float64(le) / float64(total), float64(ge) / float64(total), dist
}

func verifTies(pool []float64) bool {
	seen := map[float64]bool{}
	for _, v := range pool {
		if seen[v] {
			return true
		}
		seen[v] = true
	}
	return false
}

func verifNormalApprox(x1, x2 []float64, alt LocationHypothesis) (float64, bool) {
	n1, n2 := float64(len(x1)), float64(len(x2))
	u := 0.0
	for _, a := range x1 {
		for _, b := range x2 {
			if a > b {
				u++
			} else if a == b {
				u += 0.5
			}
		}
	}
	counts := map[float64]float64{}
	for _, v := range append(append([]float64(nil), x1...), x2...) {
		counts[v]++
	}
	tc := 0.0
	for _, c := range counts {
		tc += c*c*c - c
	}
	N := n1 + n2
	sigma := math.Sqrt(n1 * n2 / 12 * ((N + 1) - tc/(N*(N-1))))
	if sigma == 0 {
		return 0, false
	}
	num := u - n1*n2/2
	cdf := func(z float64) float64 { return 0.5 * math.Erfc(-z/math.Sqrt2) }
	switch alt {
	case LocationLess:
		return cdf((num + 0.5) / sigma), true
	case LocationGreater:
		return 1 - cdf((num-0.5)/sigma), true
	}
	if num > 0 {
		num -= 0.5
	} else if num < 0 {
		num += 0.5
	}
	z := num / sigma
	return 2 * math.Min(cdf(z), 1-cdf(z)), true
}

func TestVerifBounded(t *testing.T) {
	which := os.Getenv("VERIF_BOUNDED")
	tier := os.Getenv("VERIF_TIER")
	known := "," + os.Getenv("VERIF_KNOWN_CLASSES") + ","
	if which != "utest" {
		verifBoundedOther(t, which, tier)
		return
	}
	knownTwoSidedTies := strings.Contains(known, ",two-sided-ties,")
	maxTotal := 8
	if tier == "thorough" {
		maxTotal = 10
	}
	alphabet := []float64{1, 2, 3, 4}
	n, fails, classFails := 0, 0, 0
	classExample := ""
	bad := func(f string, args ...any) {
		fails++
		if fails <= 12 {
			t.Errorf("REPLAY-FAIL "+f, args...)
		}
	}
	var samples [][]float64
	var gen func(cur []float64, start int)
	gen = func(cur []float64, start int) {
		if len(cur) > 0 {
			samples = append(samples, append([]float64(nil), cur...))
		}
		if len(cur) == maxTotal-1 {
			return
		}
		for i := start; i < len(alphabet); i++ {
			gen(append(cur, alphabet[i]), i)
		}
	}
	gen(nil, 0)
	eq := func(a, b float64) bool { return math.Abs(a-b) <= 1e-12 }
	for _, a := range samples {
		for _, b := range samples {
			if len(a)+len(b) > maxTotal {
				continue
			}
			n++
			pool := append(append([]float64(nil), a...), b...)
			allEq := true
			for _, v := range pool {
				if v != pool[0] {
					allEq = false
				}
			}
			less, errL := MannWhitneyUTest(a, b, LocationLess)
			if allEq {
				if errL != ErrSamplesEqual {
					bad("U-test(%v, %v): all values equal but error is %v", a, b, errL)
				}
				continue
			}
			if errL != nil {
				bad("U-test(%v, %v): unexpected error %v", a, b, errL)
				continue
			}
			greater, _ := MannWhitneyUTest(a, b, LocationGreater)
			two, _ := MannWhitneyUTest(a, b, LocationDiffers)
			twoSwap, _ := MannWhitneyUTest(b, a, LocationDiffers)
			obs, pLE, pGE, dist := verifEnumU(pool, len(a))
			if !eq(less.U, obs) {
				bad("U-test(%v, %v): U=%v, pair count gives %v", a, b, less.U, obs)
			}
			if !eq(less.P, pLE) {
				bad("U-test(%v, %v, less): p=%v, exact %v", a, b, less.P, pLE)
			}
			if !eq(greater.P, pGE) {
				bad("U-test(%v, %v, greater): p=%v, exact %v", a, b, greater.P, pGE)
			}
			want2 := math.Min(1, 2*math.Min(pLE, pGE))
			if !eq(two.P, want2) || !eq(two.P, twoSwap.P) || two.P < 0 || two.P > 1 {
				if verifTies(pool) && knownTwoSidedTies {
					classFails++
					if classExample == "" {
						classExample = strings.ReplaceAll(fmt.Sprintf("%v_vs_%v:p=%v_swapped=%v_exact=%v", a, b, two.P, twoSwap.P, want2), " ", "_")
					}
				} else {
					bad("U-test(%v, %v, differs): p=%v (swapped %v), twice the smaller tail capped at 1 is %v", a, b, two.P, twoSwap.P, want2)
				}
			}
			// the U distribution itself: mass function sums to 1 and accumulates to the distribution function
			T := []int{}
			sorted := append([]float64(nil), pool...)
			for i := range sorted {
				for j := i + 1; j < len(sorted); j++ {
					if sorted[j] < sorted[i] {
						sorted[i], sorted[j] = sorted[j], sorted[i]
					}
				}
			}
			for i := 0; i < len(sorted); {
				j := i
				for j < len(sorted) && sorted[j] == sorted[i] {
					j++
				}
				T = append(T, j-i)
				i = j
			}
			d := UDist{N1: len(a), N2: len(b)}
			if verifTies(pool) {
				d.T = T
			}
			sum, acc := 0.0, 0.0
			for tu := 0; tu <= 2*len(a)*len(b); tu++ {
				u := float64(tu) / 2
				if !verifTies(pool) && tu%2 == 1 {
					continue
				}
				pm := d.PMF(u)
				sum += pm
				acc += pm
				if !eq(pm, dist[tu]) {
					bad("UDist{%d,%d,%v}.PMF(%v) = %v, enumeration gives %v", d.N1, d.N2, d.T, u, pm, dist[tu])
					break
				}
				if c := d.CDF(u); !eq(c, acc) {
					bad("UDist{%d,%d,%v}.CDF(%v) = %v, accumulated mass %v", d.N1, d.N2, d.T, u, c, acc)
					break
				}
			}
			if !eq(sum, 1) {
				bad("UDist{%d,%d,%v}: mass sums to %v", d.N1, d.N2, d.T, sum)
			}
		}
	}
	// empty samples
	if _, err := MannWhitneyUTest(nil, []float64{1}, LocationLess); err != ErrSampleSize {
		bad("empty first sample: error %v", err)
	}
	if _, err := MannWhitneyUTest([]float64{1}, nil, LocationLess); err != ErrSampleSize {
		bad("empty second sample: error %v", err)
	}
	// binomial coefficients against big integers (the tied distribution divides by them)
	for nn := 0; nn <= 62; nn++ {
		for k := -1; k <= nn+1; k++ {
			n++
			want := new(big.Float).SetInt(new(big.Int).Binomial(int64(nn), int64(k)))
			if k < 0 || k > nn {
				want = big.NewFloat(0)
			}
			w, _ := want.Float64()
			got := mathChoose(nn, k)
			if math.Abs(got-w) > 1e-9*math.Max(1, w) {
				bad("mathChoose(%d, %d) = %v, want %v", nn, k, got, w)
			}
		}
	}
	// large samples: the tie- and continuity-corrected normal approximation, evaluated independently
	mk := func(n int, vals []float64, shift float64) []float64 {
		out := make([]float64, n)
		for i := range out {
			out[i] = vals[i%len(vals)] + shift*float64(i%3)
		}
		return out
	}
	for _, sz := range [][2]int{{10, 26}, {26, 10}, {26, 30}, {30, 45}, {25, 51}, {51, 51}, {60, 8}} {
		for _, vals := range [][]float64{{1, 2, 3}, {1, 2, 3, 4, 5}, {1, 1, 2}} {
			for _, alt := range []LocationHypothesis{LocationLess, LocationDiffers, LocationGreater} {
				n++
				x1, x2 := mk(sz[0], vals, 0), mk(sz[1], vals, 1)
				res, err := MannWhitneyUTest(x1, x2, alt)
				want, ok := verifNormalApprox(x1, x2, alt)
				if !ok {
					continue
				}
				if err != nil {
					bad("large tied samples %dv%d: %v", sz[0], sz[1], err)
					continue
				}
				if math.Abs(res.P-want) > 1e-9 {
					bad("U-test %dv%d over %v alt %v: p=%v, normal approximation gives %v", sz[0], sz[1], vals, alt, res.P, want)
				}
			}
		}
		n++
		all1, all2 := mk(sz[0], []float64{7}, 0), mk(sz[1], []float64{7}, 0)
		if _, err := MannWhitneyUTest(all1, all2, LocationDiffers); err != ErrSamplesEqual {
			bad("all-equal samples %dv%d: error %v, want ErrSamplesEqual", sz[0], sz[1], err)
		}
	}
	if knownTwoSidedTies {
		fmt.Printf("KNOWN-CLASS two-sided-ties %d %s\n", classFails, classExample)
	}
	fmt.Printf("BOUNDED-RESULT {\"cases\": %d, \"failures\": %d, \"bound\": \"all pairs of multisets over {1,2,3,4} with n1+n2 <= %d against brute-force enumeration of label assignments (U, both one-sided p, two-sided p with swap, PMF and CDF of the U distribution); mathChoose for n <= 62; the normal approximation on 7 large size pairs x 3 tie patterns x 3 alternatives; empty and all-equal samples\", \"exhaustive\": true}\n", n, fails, maxTotal)
}

func verifBoundedOther(t *testing.T, which, tier string) {
	t.Skip("unknown bounded check " + which)
}
