// Bounded driver for package app (C19): the query builder's quoting against the
// shell-style splitter.  Injected with `go test -overlay`.

package app

import (
	"fmt"
	"os"
	"strings"
	"testing"

	"golang.org/x/perf/storage/query"
)

func TestVerifReplay(t *testing.T) { t.Log("NO-ORACLE") }

func TestVerifBounded(t *testing.T) {
	if os.Getenv("VERIF_BOUNDED") != "roundtrip" {
		t.Skip("unknown bounded check")
	}
	maxLen := 5
	if os.Getenv("VERIF_TIER") == "thorough" {
		maxLen = 6
	}
	alpha := []string{"a", " ", "\t", "\\", "\"", "|", ":", "\n", "\u00a0", "\x00", "\x7f"}
	n, fails := 0, 0
	bad := func(f string, args ...any) {
		fails++
		if fails <= 10 {
			t.Errorf("REPLAY-FAIL "+f, args...)
		}
	}
	var rec func(s string, depth int)
	rec = func(s string, depth int) {
		if s != "" {
			n++
			for _, rest := range []string{"", "k:v", "x | k:v"} {
				q := addToQuery(rest, s)
				words := query.SplitWords(q)
				if len(words) == 0 || words[0] != s {
					bad("addToQuery(%q, %q) = %q splits into %q; the first word is not the original", rest, s, q, words)
					break
				}
				// the remaining words are those of the rest (plus the separator)
				want := query.SplitWords(rest)
				if !strings.Contains(rest, "|") {
					want = append([]string{"|"}, want...)
				}
				if fmt.Sprint(words[1:]) != fmt.Sprint(want) {
					bad("addToQuery(%q, %q) = %q splits into %q; the tail should be %q", rest, s, q, words, want)
					break
				}
			}
		}
		if depth == maxLen {
			return
		}
		for _, c := range alpha {
			rec(s+c, depth+1)
		}
	}
	rec("", 0)
	// plain shell-style splitting
	for _, tc := range []struct {
		q    string
		want []string
	}{{`a b`, []string{"a", "b"}}, {`"a b" c`, []string{"a b", "c"}}, {`a\ b`, []string{"a b"}}, {`"a\"b"`, []string{`a"b`}}, {`"a\\" b`, []string{`a\`, "b"}}, {"a\tb", []string{"a", "b"}}, {`"C:\\go\\bin"`, []string{`C:\go\bin`}}, {``, nil}, {`  `, nil}} {
		n++
		if got := query.SplitWords(tc.q); fmt.Sprint(got) != fmt.Sprint(tc.want) {
			bad("SplitWords(%q) = %q, want %q", tc.q, got, tc.want)
		}
	}
	fmt.Printf("BOUNDED-RESULT {\"cases\": %d, \"failures\": %d, \"bound\": \"every non-empty string of up to %d symbols over {a space tab backslash quote | : newline NBSP NUL DEL} quoted by addToQuery in front of 3 queries and split back; 9 splitting examples\", \"exhaustive\": true}\n", n, fails, maxLen)
}
