// Replay driver for package benchfmt: property oracles written against the
// public behaviour, independent of the contracts.  Injected with
// `go test -overlay` as benchfmt/zz_verif_replay_test.go; nothing is written
// to the repository.

package benchfmt

import (
	"bytes"
	"encoding/json"
	"fmt"
	"math"
	"math/rand"
	"os"
	"strconv"
	"strings"
	"testing"
	"unicode"
	"unicode/utf8"
)

type verifArg struct {
	Name  string  `json:"name"`
	Type  string  `json:"type"`
	Bytes []int   `json:"bytes"`
	Str   *string `json:"str"`
	Int   *string `json:"int"`
	Float *string `json:"float"`
	Bool  *bool   `json:"bool"`
	Cap   int     `json:"cap"`
	Nil   bool    `json:"nil"`
}

type verifInput struct {
	Fn   string     `json:"fn"`
	Args []verifArg `json:"args"`
}

func (a verifArg) bytes() []byte {
	if a.Nil {
		return nil
	}
	c := a.Cap
	if c < len(a.Bytes) {
		c = len(a.Bytes)
	}
	b := make([]byte, len(a.Bytes), c)
	for i, v := range a.Bytes {
		b[i] = byte(v)
	}
	return b
}

func TestVerifReplay(t *testing.T) {
	path := os.Getenv("VERIF_REPLAY_INPUT")
	if path == "" {
		t.Skip("no replay input")
	}
	data, err := os.ReadFile(path)
	if err != nil {
		t.Fatal(err)
	}
	var in verifInput
	if err := json.Unmarshal(data, &in); err != nil {
		t.Fatal(err)
	}
	fail := func(f string, args ...any) {
		t.Helper()
		t.Errorf("REPLAY-FAIL "+f, args...)
	}
	switch in.Fn {
	case "benchfmt.Name.splitGomaxprocs", "benchfmt.Name.Parts", "benchfmt.Name.Base":
		n := Name(in.Args[0].bytes())
		orig := append([]byte(nil), n...)
		base, parts := n.Parts()
		// base ++ parts reproduces the name byte for byte
		got := append([]byte(nil), base...)
		for _, p := range parts {
			got = append(got, p...)
		}
		if !bytes.Equal(got, orig) {
			fail("Parts(%q): base+parts = %q", orig, got)
		}
		// the parts are exactly the '/'-introduced segments plus an optional trailing -N
		wantBase, wantParts := verifRefParts(orig)
		if !bytes.Equal(base, wantBase) {
			fail("Parts(%q): base %q, want %q", orig, base, wantBase)
		}
		if len(parts) != len(wantParts) {
			fail("Parts(%q): %d parts %q, want %q", orig, len(parts), parts, wantParts)
		} else {
			for i := range parts {
				if !bytes.Equal(parts[i], wantParts[i]) {
					fail("Parts(%q): part %d = %q, want %q", orig, i, parts[i], wantParts[i])
				}
			}
		}
		if b := n.Base(); !bytes.Equal(b, wantBase) {
			fail("Base(%q) = %q, want %q", orig, b, wantBase)
		}
	case "benchfmt.atof":
		x := in.Args[0].bytes()
		got, gerr := atof(x)
		want, werr := strconv.ParseFloat(string(x), 64)
		if (gerr == nil) != (werr == nil) {
			fail("atof(%q): error %v, strconv %v", x, gerr, werr)
		} else if math.Float64bits(got) != math.Float64bits(want) && !(math.IsNaN(got) && math.IsNaN(want)) {
			fail("atof(%q) = %v (%#x), strconv.ParseFloat = %v (%#x)", x, got, math.Float64bits(got), want, math.Float64bits(want))
		}
	case "benchfmt.parseKeyValueLine":
		line := in.Args[0].bytes()
		key, val, ok := parseKeyValueLine(line)
		wk, wv, wok := verifRefKeyValue(line)
		if ok != wok || (ok && (!bytes.Equal(key, wk) || !bytes.Equal(val, wv))) {
			fail("parseKeyValueLine(%q) = %q, %q, %v; want %q, %q, %v", line, key, val, ok, wk, wv, wok)
		}
	case "benchfmt.splitField":
		x := in.Args[0].bytes()
		field, rest := splitField(x)
		wf, wr := verifRefSplitField(x)
		if !bytes.Equal(field, wf) || !bytes.Equal(rest, wr) {
			fail("splitField(%q) = %q, %q; want %q, %q", x, field, rest, wf, wr)
		}
	default:
		t.Log("NO-ORACLE for", in.Fn)
	}
}

// verifRefKeyValue: the format's rule for configuration lines, rune by rune.
func verifRefKeyValue(line []byte) (key, val []byte, ok bool) {
	s := string(line)
	colon := -1
	for i, r := range s {
		if i == 0 && !unicode.IsLower(r) {
			return nil, nil, false
		}
		if unicode.IsSpace(r) || unicode.IsUpper(r) {
			return nil, nil, false
		}
		if i > 0 && r == ':' {
			colon = i
			break
		}
	}
	if colon < 0 {
		return nil, nil, false
	}
	rest := line[colon+1:]
	if len(rest) == 0 {
		return line[:colon], rest, true
	}
	j := 0
	for j < len(rest) && (rest[j] == ' ' || rest[j] == '\t') {
		j++
	}
	if j == 0 {
		return nil, nil, false
	}
	return line[:colon], rest[j:], true
}

// verifRefSplitField: first white-space-free run, then the text after the following white space.
func verifRefSplitField(x []byte) (field, rest []byte) {
	s := string(x)
	end := len(s)
	for i, r := range s {
		if unicode.IsSpace(r) {
			end = i
			break
		}
	}
	field = x[:end]
	tail := s[end:]
	for len(tail) > 0 {
		r, n := utf8.DecodeRuneInString(tail)
		if !unicode.IsSpace(r) {
			break
		}
		tail = tail[n:]
	}
	return field, []byte(tail)
}

// verifRefParts is the reference decomposition, written from the format's
// description: strip a trailing "-digits" (at least one digit, not the whole
// name… the dash may be anywhere but the last byte), then split before each '/'.
func verifRefParts(n []byte) (base []byte, parts [][]byte) {
	end := len(n)
	var gomax []byte
	i := len(n)
	for i > 0 && n[i-1] >= '0' && n[i-1] <= '9' {
		i--
	}
	if i > 0 && i < len(n) && n[i-1] == '-' {
		gomax = n[i-1:]
		end = i - 1
	}
	buf := n[:end]
	prev := 0
	first := true
	for j := 0; j < len(buf); j++ {
		if buf[j] == '/' {
			if first {
				base = buf[:j]
				first = false
			} else {
				parts = append(parts, buf[prev:j])
			}
			prev = j
		}
	}
	if first {
		base = buf
	} else {
		parts = append(parts, buf[prev:])
	}
	if gomax != nil {
		parts = append(parts, gomax)
	}
	return
}


// ---------------------------------------------------------------------------
// Bounded stand-ins (C01, C02)

type verifRec struct {
	name   string
	iters  int
	vals   []string // "value unit" as written
	cfg    map[string]string
	isUnit bool
	unit   [3]string // OrigUnit, Key, Value
}

func verifWritten(v Value) string {
	if v.OrigUnit != "" {
		return fmt.Sprintf("%v %s", v.OrigValue, v.OrigUnit)
	}
	return fmt.Sprintf("%v %s", v.Value, v.Unit)
}

func verifSummarise(rec Record) (verifRec, bool) {
	switch rec := rec.(type) {
	case *Result:
		r := verifRec{name: string(rec.Name), iters: rec.Iters, cfg: map[string]string{}}
		for _, v := range rec.Values {
			r.vals = append(r.vals, verifWritten(v))
		}
		for _, c := range rec.Config {
			if c.File {
				r.cfg[c.Key] = string(c.Value)
			}
		}
		return r, true
	case *UnitMetadata:
		return verifRec{isUnit: true, unit: [3]string{rec.OrigUnit, rec.Key, rec.Value}}, true
	}
	return verifRec{}, false
}

func verifSameRec(a, b verifRec) bool {
	if a.isUnit != b.isUnit || a.unit != b.unit || a.name != b.name || a.iters != b.iters || len(a.vals) != len(b.vals) || len(a.cfg) != len(b.cfg) {
		return false
	}
	for i := range a.vals {
		if a.vals[i] != b.vals[i] {
			return false
		}
	}
	for k, v := range a.cfg {
		if w, ok := b.cfg[k]; !ok || w != v {
			return false
		}
	}
	return true
}

func verifReadAll(text string) ([]verifRec, error) {
	r := NewReader(strings.NewReader(text), "t")
	var out []verifRec
	for r.Scan() {
		switch rec := r.Result().(type) {
		case *SyntaxError:
			return nil, rec
		default:
			if s, ok := verifSummarise(rec); ok {
				out = append(out, s)
			}
		}
	}
	return out, r.Err()
}

func verifRoundTrip(recs []Record) error {
	var want []verifRec
	var buf bytes.Buffer
	w := NewWriter(&buf)
	for _, rec := range recs {
		if s, ok := verifSummarise(rec); ok {
			want = append(want, s)
		}
		if err := w.Write(rec); err != nil {
			return err
		}
	}
	got, err := verifReadAll(buf.String())
	if err != nil {
		return fmt.Errorf("reading back %q: %v", buf.String(), err)
	}
	if len(got) != len(want) {
		return fmt.Errorf("wrote %d records, read back %d from %q", len(want), len(got), buf.String())
	}
	for i := range want {
		if !verifSameRec(want[i], got[i]) {
			return fmt.Errorf("record %d: wrote %+v, read back %+v (text %q)", i, want[i], got[i], buf.String())
		}
	}
	return nil
}

func TestVerifBounded(t *testing.T) {
	which := os.Getenv("VERIF_BOUNDED")
	tier := os.Getenv("VERIF_TIER")
	seed, _ := strconv.ParseInt(os.Getenv("VERIF_SEED"), 10, 64)
	if which == "files" {
		verifFiles(t, tier)
		return
	}
	if which != "roundtrip" {
		t.Skip("unknown bounded check " + which)
	}
	n, fails := 0, 0
	bad := func(err error) {
		fails++
		if fails <= 10 {
			t.Errorf("REPLAY-FAIL %v", err)
		}
	}
	// 1. exhaustive two- and three-step configuration histories over keys a,b,c:
	//    each key is absent, file (values 1/2) or internal in each step
	states := []string{"-", "f1", "f2", "i1"}
	mk := func(st [3]string, name string) *Result {
		r := &Result{Name: Name(name), Iters: 1, Values: []Value{{Value: 1, Unit: "x"}}}
		for i, k := range []string{"a", "b", "c"} {
			switch st[i] {
			case "f1":
				r.Config = append(r.Config, Config{Key: k, Value: []byte("1"), File: true})
			case "f2":
				r.Config = append(r.Config, Config{Key: k, Value: []byte("2"), File: true})
			case "i1":
				r.Config = append(r.Config, Config{Key: k, Value: []byte("1"), File: false})
			}
		}
		return r
	}
	var all [][3]string
	for _, a := range states {
		for _, b := range states {
			for _, c := range states {
				all = append(all, [3]string{a, b, c})
			}
		}
	}
	for _, s1 := range all {
		for _, s2 := range all {
			n++
			if err := verifRoundTrip([]Record{mk(s1, "X"), mk(s2, "Y")}); err != nil {
				bad(fmt.Errorf("history %v -> %v: %v", s1, s2, err))
			}
		}
	}
	third := all
	if tier != "thorough" {
		third = nil
		for i := 0; i < len(all); i += 5 {
			third = append(third, all[i])
		}
	}
	for i, s1 := range all {
		if tier != "thorough" && i%3 != 0 {
			continue
		}
		for _, s2 := range all {
			for _, s3 := range third {
				n++
				if err := verifRoundTrip([]Record{mk(s1, "X"), mk(s2, "Y"), mk(s3, "Z")}); err != nil {
					bad(fmt.Errorf("history %v -> %v -> %v: %v", s1, s2, s3, err))
				}
			}
		}
	}
	// 2. measurements: every value (incl. 0, infinities, NaN, subnormals) in plain and rescaled units keeps value and unit as written
	vals := []float64{0, 1, 2.5, -3, 1e-320, 5e-324, 1e300, math.Inf(1), math.Inf(-1), math.NaN(), 123456789.123456789, 0.1}
	for _, v := range vals {
		for _, u := range []string{"ns/op", "MB/s", "B/op", "x", "heap-MB/MB", "ns"} {
			n++
			text := fmt.Sprintf("BenchmarkV 1 %v %s\n", v, u)
			got, err := verifReadAll(text)
			if err != nil || len(got) != 1 {
				bad(fmt.Errorf("reading %q: %v %v", text, got, err))
				continue
			}
			// parse -> write -> parse
			r := NewReader(strings.NewReader(text), "t")
			var recs []Record
			for r.Scan() {
				if res, ok := r.Result().(*Result); ok {
					recs = append(recs, res.Clone())
				}
			}
			if err := verifRoundTrip(recs); err != nil {
				bad(fmt.Errorf("value %v %s: %v", v, u, err))
			}
			if len(recs) == 1 && verifWritten(recs[0].(*Result).Values[0]) != fmt.Sprintf("%v %s", v, u) {
				bad(fmt.Errorf("value %v %s is read as %q", v, u, verifWritten(recs[0].(*Result).Values[0])))
			}
		}
	}
	// 3. seeded random streams: text -> records -> text -> records, and API edits in between
	rng := rand.New(rand.NewSource(seed + 7))
	streams := 3000
	if tier == "thorough" {
		streams = 60000
	}
	keys := []string{"goos", "pkg", "k", "note", "a-b", "x1"}
	for s := 0; s < streams; s++ {
		var sb strings.Builder
		lines := 1 + rng.Intn(12)
		for l := 0; l < lines; l++ {
			switch rng.Intn(6) {
			case 0, 1:
				fmt.Fprintf(&sb, "%s: %s\n", keys[rng.Intn(len(keys))], []string{"1", "two words", "v", "x:y", "\u00e9"}[rng.Intn(5)])
			case 2:
				fmt.Fprintf(&sb, "%s:\n", keys[rng.Intn(len(keys))])
			case 3:
				fmt.Fprintf(&sb, "Unit %s better=%s\n", []string{"ns/op", "B/op", "x"}[rng.Intn(3)], []string{"lower", "higher"}[rng.Intn(2)])
			default:
				fmt.Fprintf(&sb, "BenchmarkN%d/k=%d-%d %d %v ns/op %d B/op\n", rng.Intn(3), rng.Intn(3), 1+rng.Intn(8), 1+rng.Intn(100), rng.Float64()*100, rng.Intn(1000))
			}
		}
		r := new(Reader)
		r.Reset(strings.NewReader(sb.String()), "t", "tool", "internal")
		var recs []Record
		dupUnit := false
		for r.Scan() {
			switch rec := r.Result().(type) {
			case *Result:
				c := rec.Clone()
				if rng.Intn(4) == 0 { // edit through the API
					c.SetConfig(keys[rng.Intn(len(keys))], []string{"", "internal"}[rng.Intn(2)])
				}
				recs = append(recs, c)
			case *UnitMetadata:
				recs = append(recs, rec)
			case *SyntaxError:
				dupUnit = true // conflicting unit metadata: not a stream the writer is asked to reproduce
			}
		}
		if dupUnit {
			continue
		}
		n++
		if err := verifRoundTrip(recs); err != nil {
			bad(fmt.Errorf("stream %q: %v", sb.String(), err))
		}
	}
	// 4. the streaming pipeline  reader -> writer  without cloning (the reader reuses its
	//    buffers between records): what is written must read back as what was read
	for s := 0; s < streams; s++ {
		var sb strings.Builder
		lines := 2 + rng.Intn(14)
		for l := 0; l < lines; l++ {
			switch rng.Intn(5) {
			case 0, 1:
				fmt.Fprintf(&sb, "%s: %s\n", keys[rng.Intn(3)], []string{"aa", "bb", "cc", "a", "longer value"}[rng.Intn(5)])
			case 2:
				fmt.Fprintf(&sb, "%s:\n", keys[rng.Intn(3)])
			default:
				fmt.Fprintf(&sb, "BenchmarkS%d %d %d ns/op\n", rng.Intn(3), 1+rng.Intn(100), rng.Intn(1000))
			}
		}
		r := NewReader(strings.NewReader(sb.String()), "t")
		var buf bytes.Buffer
		w := NewWriter(&buf)
		var want []verifRec
		for r.Scan() {
			rec := r.Result()
			if sm, ok := verifSummarise(rec); ok {
				want = append(want, sm)
			}
			if err := w.Write(rec); err != nil {
				bad(err)
			}
		}
		n++
		got, err := verifReadAll(buf.String())
		if err != nil || len(got) != len(want) {
			bad(fmt.Errorf("streaming %q: wrote %d records, read back %d (%v) from %q", sb.String(), len(want), len(got), err, buf.String()))
			continue
		}
		for i := range want {
			if !verifSameRec(want[i], got[i]) {
				bad(fmt.Errorf("streaming %q: record %d was %+v, reads back as %+v (written text %q)", sb.String(), i, want[i], got[i], buf.String()))
				break
			}
		}
	}
	fmt.Printf("BOUNDED-RESULT {\"cases\": %d, \"failures\": %d, \"bound\": \"all 2-step and (quick: a third of the) 3-step configuration histories of 3 keys x {absent, file=1, file=2, internal}; 12 values x 6 units as text; %d seeded random streams with API edits and as many streamed reader-to-writer pipelines without cloning (seed %d)\", \"exhaustive\": false}\n", n, fails, streams, seed)
}

// ---------------------------------------------------------------------------
// C02: Files — each result carries its own file's label, duplicates disambiguated,
// configuration does not leak between files, unit metadata carries across.

func verifFiles(t *testing.T, tier string) {
	n, fails := 0, 0
	bad := func(f string, args ...any) {
		fails++
		if fails <= 12 {
			t.Errorf("REPLAY-FAIL "+f, args...)
		}
	}
	dir := t.TempDir()
	// three files; file i sets its own configuration key ki and defines benchmark Bi
	paths := map[string]string{}
	for i, nm := range []string{"a", "b", "c"} {
		p := dir + "/" + nm
		text := fmt.Sprintf("k%d: v%d\nshared: from-%s\nUnit u%d better=lower\nBenchmarkB%d 1 %d ns/op\n", i, i, nm, i, i, i+1)
		if err := os.WriteFile(p, []byte(text), 0666); err != nil {
			t.Fatal(err)
		}
		paths[nm] = p
	}
	// argument alphabets: bare path, labelled path (two different labels)
	forms := []string{"a", "b", "c", "L=a", "M=a", "L=b"}
	maxLen := 4
	if tier == "thorough" {
		maxLen = 5
	}
	var rec func(args []string)
	rec = func(args []string) {
		if len(args) > 0 {
			for _, allowLabels := range []bool{true, false} {
				n++
				var real []string
				for _, a := range args {
					if i := strings.Index(a, "="); i >= 0 {
						real = append(real, a[:i]+"="+paths[a[i+1:]])
					} else {
						real = append(real, paths[a])
					}
				}
				if !allowLabels {
					// without labels "L=a" is a path that does not exist: only use bare forms
					skip := false
					for _, a := range args {
						if strings.Contains(a, "=") {
							skip = true
						}
					}
					if skip {
						continue
					}
				}
				// expected label per input
				bareCount := map[string]int{}
				for _, a := range real {
					if !(allowLabels && strings.Contains(a, "=")) {
						bareCount[a]++
					}
				}
				seen := map[string]int{}
				var wantLabels []string
				for _, a := range real {
					if i := strings.Index(a, "="); allowLabels && i >= 0 {
						wantLabels = append(wantLabels, a[:i])
					} else if bareCount[a] == 1 {
						wantLabels = append(wantLabels, a)
					} else {
						wantLabels = append(wantLabels, fmt.Sprintf("%s#%d", a, seen[a]))
						seen[a]++
					}
				}
				f := Files{Paths: real, AllowLabels: allowLabels}
				var gotLabels []string
				idx := 0
				for f.Scan() {
					res, ok := f.Result().(*Result)
					if !ok {
						continue
					}
					gotLabels = append(gotLabels, res.GetConfig(".file"))
					// the file's own configuration, nothing from the previous file
					which := args[idx]
					if i := strings.Index(which, "="); i >= 0 {
						which = which[i+1:]
					}
					fi := map[string]int{"a": 0, "b": 1, "c": 2}[which]
					for j := 0; j < 3; j++ {
						v := res.GetConfig(fmt.Sprintf("k%d", j))
						if j == fi && v != fmt.Sprintf("v%d", j) || j != fi && v != "" {
							bad("args %v: result of file %s has k%d=%q", args, which, j, v)
						}
					}
					if v := res.GetConfig("shared"); v != "from-"+which {
						bad("args %v: result of file %s has shared=%q", args, which, v)
					}
					idx++
				}
				if err := f.Err(); err != nil {
					bad("args %v: %v", args, err)
					continue
				}
				if strings.Join(gotLabels, ",") != strings.Join(wantLabels, ",") {
					bad("args %v (labels allowed: %v): .file labels %q, want %q", args, allowLabels, gotLabels, wantLabels)
				}
				// unit metadata of every file read so far is still there at the end
				um := UnitMetadataMap(f.Units())
				for _, a := range args {
					which := a
					if i := strings.Index(which, "="); i >= 0 {
						which = which[i+1:]
					}
					fi := map[string]int{"a": 0, "b": 1, "c": 2}[which]
					if um.Get(fmt.Sprintf("u%d", fi), "better") == nil {
						bad("args %v: unit metadata of file %s is gone", args, which)
					}
				}
			}
		}
		if len(args) == maxLen {
			return
		}
		for _, fm := range forms {
			rec(append(append([]string{}, args...), fm))
		}
	}
	rec(nil)
	// standard input: named by "-" (when allowed), or implied by an empty list; its label is "-"
	// unless relabelled, and "-#k" only when "-" is given several times
	stdinCases := []struct {
		args   []string
		labels bool
		want   string
	}{
		{nil, false, "-"}, {nil, true, "-"}, {[]string{"-"}, false, "-"}, {[]string{"-"}, true, "-"},
		{[]string{"in=-"}, true, "in"}, {[]string{"a", "-"}, true, "PATHa,-"}, {[]string{"-", "a", "a"}, false, "-,PATHa#0,PATHa#1"},
	}
	for _, c := range stdinCases {
		n++
		r, w, err := os.Pipe()
		if err != nil {
			t.Fatal(err)
		}
		w.WriteString("BenchmarkIn 1 7 ns/op\n")
		w.Close()
		saved := os.Stdin
		os.Stdin = r
		var real []string
		for _, a := range c.args {
			if p, ok := paths[a]; ok {
				real = append(real, p)
			} else {
				real = append(real, a)
			}
		}
		f := Files{Paths: real, AllowStdin: true, AllowLabels: c.labels}
		var got []string
		for f.Scan() {
			if res, ok := f.Result().(*Result); ok {
				got = append(got, res.GetConfig(".file"))
			}
		}
		os.Stdin = saved
		r.Close()
		want := strings.ReplaceAll(c.want, "PATHa", paths["a"])
		if err := f.Err(); err != nil {
			bad("standard input, args %v: %v", c.args, err)
		} else if strings.Join(got, ",") != want {
			bad("standard input, args %q (labels allowed: %v): .file labels %q, want %q", c.args, c.labels, got, want)
		}
	}
	fmt.Printf("BOUNDED-RESULT {\"cases\": %d, \"failures\": %d, \"bound\": \"every argument list of length <= %d over 3 files in bare and labelled forms, with and without AllowLabels; 7 argument lists with standard input (implied, named, relabelled, mixed with files)\", \"exhaustive\": true}\n", n, fails, maxLen)
}
