// Replay driver for package benchfmt: property oracles written against the
// public behaviour, independent of the contracts.  Injected with
// `go test -overlay` as benchfmt/zz_verif_replay_test.go; nothing is written
// to the repository.

package benchfmt

import (
	"bytes"
	"encoding/json"
	"math"
	"os"
	"strconv"
	"testing"
	"unicode"
	"unicode/utf8"
)

type verifArg struct {
	Name  string  `json:"name"`
	Type  string  `json:"type"`
	Bytes []int   `json:"bytes"`
	Str   *string `json:"str"`
	Int   *string `json:"int"`
	Float *string `json:"float"`
	Bool  *bool   `json:"bool"`
	Cap   int     `json:"cap"`
	Nil   bool    `json:"nil"`
}

type verifInput struct {
	Fn   string     `json:"fn"`
	Args []verifArg `json:"args"`
}

func (a verifArg) bytes() []byte {
	if a.Nil {
		return nil
	}
	c := a.Cap
	if c < len(a.Bytes) {
		c = len(a.Bytes)
	}
	b := make([]byte, len(a.Bytes), c)
	for i, v := range a.Bytes {
		b[i] = byte(v)
	}
	return b
}

func TestVerifReplay(t *testing.T) {
	path := os.Getenv("VERIF_REPLAY_INPUT")
	if path == "" {
		t.Skip("no replay input")
	}
	data, err := os.ReadFile(path)
	if err != nil {
		t.Fatal(err)
	}
	var in verifInput
	if err := json.Unmarshal(data, &in); err != nil {
		t.Fatal(err)
	}
	fail := func(f string, args ...any) {
		t.Helper()
		t.Errorf("REPLAY-FAIL "+f, args...)
	}
	switch in.Fn {
	case "benchfmt.Name.splitGomaxprocs", "benchfmt.Name.Parts", "benchfmt.Name.Base":
		n := Name(in.Args[0].bytes())
		orig := append([]byte(nil), n...)
		base, parts := n.Parts()
		// base ++ parts reproduces the name byte for byte
		got := append([]byte(nil), base...)
		for _, p := range parts {
			got = append(got, p...)
		}
		if !bytes.Equal(got, orig) {
			fail("Parts(%q): base+parts = %q", orig, got)
		}
		// the parts are exactly the '/'-introduced segments plus an optional trailing -N
		wantBase, wantParts := verifRefParts(orig)
		if !bytes.Equal(base, wantBase) {
			fail("Parts(%q): base %q, want %q", orig, base, wantBase)
		}
		if len(parts) != len(wantParts) {
			fail("Parts(%q): %d parts %q, want %q", orig, len(parts), parts, wantParts)
		} else {
			for i := range parts {
				if !bytes.Equal(parts[i], wantParts[i]) {
					fail("Parts(%q): part %d = %q, want %q", orig, i, parts[i], wantParts[i])
				}
			}
		}
		if b := n.Base(); !bytes.Equal(b, wantBase) {
			fail("Base(%q) = %q, want %q", orig, b, wantBase)
		}
	case "benchfmt.atof":
		x := in.Args[0].bytes()
		got, gerr := atof(x)
		want, werr := strconv.ParseFloat(string(x), 64)
		if (gerr == nil) != (werr == nil) {
			fail("atof(%q): error %v, strconv %v", x, gerr, werr)
		} else if math.Float64bits(got) != math.Float64bits(want) && !(math.IsNaN(got) && math.IsNaN(want)) {
			fail("atof(%q) = %v (%#x), strconv.ParseFloat = %v (%#x)", x, got, math.Float64bits(got), want, math.Float64bits(want))
		}
	case "benchfmt.parseKeyValueLine":
		line := in.Args[0].bytes()
		key, val, ok := parseKeyValueLine(line)
		wk, wv, wok := verifRefKeyValue(line)
		if ok != wok || (ok && (!bytes.Equal(key, wk) || !bytes.Equal(val, wv))) {
			fail("parseKeyValueLine(%q) = %q, %q, %v; want %q, %q, %v", line, key, val, ok, wk, wv, wok)
		}
	case "benchfmt.splitField":
		x := in.Args[0].bytes()
		field, rest := splitField(x)
		wf, wr := verifRefSplitField(x)
		if !bytes.Equal(field, wf) || !bytes.Equal(rest, wr) {
			fail("splitField(%q) = %q, %q; want %q, %q", x, field, rest, wf, wr)
		}
	default:
		t.Log("NO-ORACLE for", in.Fn)
	}
}

// verifRefKeyValue: the format's rule for configuration lines, rune by rune.
func verifRefKeyValue(line []byte) (key, val []byte, ok bool) {
	s := string(line)
	colon := -1
	for i, r := range s {
		if i == 0 && !unicode.IsLower(r) {
			return nil, nil, false
		}
		if unicode.IsSpace(r) || unicode.IsUpper(r) {
			return nil, nil, false
		}
		if i > 0 && r == ':' {
			colon = i
			break
		}
	}
	if colon < 0 {
		return nil, nil, false
	}
	rest := line[colon+1:]
	if len(rest) == 0 {
		return line[:colon], rest, true
	}
	j := 0
	for j < len(rest) && (rest[j] == ' ' || rest[j] == '\t') {
		j++
	}
	if j == 0 {
		return nil, nil, false
	}
	return line[:colon], rest[j:], true
}

// verifRefSplitField: first white-space-free run, then the text after the following white space.
func verifRefSplitField(x []byte) (field, rest []byte) {
	s := string(x)
	end := len(s)
	for i, r := range s {
		if unicode.IsSpace(r) {
			end = i
			break
		}
	}
	field = x[:end]
	tail := s[end:]
	for len(tail) > 0 {
		r, n := utf8.DecodeRuneInString(tail)
		if !unicode.IsSpace(r) {
			break
		}
		tail = tail[n:]
	}
	return field, []byte(tail)
}

// verifRefParts is the reference decomposition, written from the format's
// description: strip a trailing "-digits" (at least one digit, not the whole
// name… the dash may be anywhere but the last byte), then split before each '/'.
func verifRefParts(n []byte) (base []byte, parts [][]byte) {
	end := len(n)
	var gomax []byte
	i := len(n)
	for i > 0 && n[i-1] >= '0' && n[i-1] <= '9' {
		i--
	}
	if i > 0 && i < len(n) && n[i-1] == '-' {
		gomax = n[i-1:]
		end = i - 1
	}
	buf := n[:end]
	prev := 0
	first := true
	for j := 0; j < len(buf); j++ {
		if buf[j] == '/' {
			if first {
				base = buf[:j]
				first = false
			} else {
				parts = append(parts, buf[prev:j])
			}
			prev = j
		}
	}
	if first {
		base = buf
	} else {
		parts = append(parts, buf[prev:])
	}
	if gomax != nil {
		parts = append(parts, gomax)
	}
	return
}
