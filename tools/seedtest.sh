#!/bin/bash
# tools/seedtest.sh <seed-dir> <property-id> [demo-dest-relative-path]
# Confirms a seeded change in a scratch worktree (suite passes, demo fails with /
# passes without), then applies it to /repo, runs the property's check and reverts.
export GOFLAGS=-mod=mod GOPROXY=off GOSUMDB=off GOTOOLCHAIN=local
seed="$1"; prop="$2"; dest="$3"
wt=/var/tmp/seedwt-$$
base=$(git -C /repo rev-parse HEAD)
git -C /repo worktree add -q --detach "$wt" "$base" || exit 2
cleanup() { git -C /repo worktree remove --force "$wt" 2>/dev/null; git -C /repo checkout -q -- . ; }
trap cleanup EXIT
if [ -z "$dest" ]; then
	dest=$(grep -m1 -oE '[a-z/]+/[A-Za-z0-9_]+_test\.go' "$seed/demo_test.go" | head -1)
fi
pkg=$(dirname "$dest")
cp "$seed/demo_test.go" "$wt/$dest"
echo "== demo on pristine tree (must pass)"
(cd "$wt" && go test -vet=off -count=1 ./$pkg/ 2>&1 | tail -3)
pristine=$?
(cd "$wt" && go test -vet=off -count=1 ./$pkg/ >/dev/null 2>&1); pristine=$?
git -C "$wt" apply "$seed/patch.diff" || { echo "patch does not apply"; exit 2; }
echo "== demo with the change (must fail)"
(cd "$wt" && go test -vet=off -count=1 ./$pkg/ 2>&1 | grep -E '^(--- FAIL|FAIL|ok)' | head -5)
(cd "$wt" && go test -vet=off -count=1 ./$pkg/ >/dev/null 2>&1); changed=$?
rm "$wt/$dest"
echo "== existing suite with the change (must pass)"
(cd "$wt" && go build ./... && go test -vet=off -count=1 ./... 2>&1 | grep -vE '^ok|no test files' | head -10)
(cd "$wt" && go test -vet=off -count=1 ./... >/dev/null 2>&1); suite=$?
echo "pristine_exit=$pristine changed_exit=$changed suite_exit=$suite"
echo "== property check on /repo with the change"
git -C /repo apply "$seed/patch.diff" || exit 2
cp /verif/evidence/$prop.json /tmp/evidence-$prop.bak 2>/dev/null
(cd /verif && ./check "$prop" quick 2>&1 | tail -8)
cp /tmp/evidence-$prop.bak /verif/evidence/$prop.json 2>/dev/null
true
git -C /repo checkout -q -- .
