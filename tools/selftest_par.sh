#!/bin/bash
# tools/selftest_par.sh [jobs]: tools/selftest.sh over the whole corpus, <jobs> seeds at a time (default 3).
jobs="${1:-3}"
cd /verif
ls seeded | grep -v obsolete | xargs -P "$jobs" -I{} sh -c 'tools/selftest.sh "{}" 2>&1 | grep -E "^(ok|MISS|FALSE-ALARM|SKIP)" | grep -v harmless'
for h in rename-param shift-lines reorder-fields rename-local; do tools/selftest.sh "$h" 2>&1 | grep harmless; done
