#!/usr/bin/env python3
"""tools/seedkeep.py <seed-dir> <seed-id> <property> <detected-by ...>: archive a confirmed seeded change under /verif/seeded/<seed-id>/."""
import sys, os, shutil, json, re
src, sid, prop = sys.argv[1:4]
detected = sys.argv[4:]
dst = f"/verif/seeded/{sid}"
os.makedirs(dst, exist_ok=True)
for f in ("patch.diff", "demo_test.go", "notes.txt"):
    if os.path.exists(os.path.join(src, f)):
        shutil.copy(os.path.join(src, f), os.path.join(dst, f))
notes = open(os.path.join(src, "notes.txt")).read() if os.path.exists(os.path.join(src, "notes.txt")) else ""
demo = open(os.path.join(src, "demo_test.go")).read()
m = re.search(r'[a-z/]+/[A-Za-z0-9_]+_test\.go', demo)
meta = {
  "id": sid, "property": prop,
  "breaks": prop,
  "needs_to_manifest": notes.strip().split("\n\n")[0][:1200],
  "demo_path_in_repo": m.group(0) if m else None,
  "confirmed": "tools/seedtest.sh: demo passes on the pristine tree, fails with the patch; full suite (go test ./...) passes with the patch",
  "check_result": detected,
}
json.dump(meta, open(os.path.join(dst, "meta.json"), "w"), indent=1)
print("kept", dst)
