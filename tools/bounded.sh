#!/bin/bash
# tools/bounded.sh <pkg-rel> <check-name> [tier] [repo]: run one bounded driver directly (for development).
export GOFLAGS=-mod=mod GOPROXY=off GOSUMDB=off GOTOOLCHAIN=local
rel="$1"; name="$2"; tier="${3:-quick}"; repo="${4:-/repo}"
san=$(echo "$rel" | tr '/' '_')
ov=$(mktemp /var/tmp/ov-XXXXXX.json)
printf '{"Replace": {"%s/%s/zz_verif_replay_test.go": "/verif/replay/%s_test.go"}}' "$repo" "$rel" "$san" > "$ov"
(cd "$repo" && VERIF_BOUNDED="$name" VERIF_TIER="$tier" VERIF_SEED="${VERIF_SEED:-1}" go test -overlay "$ov" -vet=off -count=1 -timeout 2400s -run '^TestVerifBounded$' -v ./"$rel" 2>&1 | tail -${TAILN:-40})
rm -f "$ov"
