#!/usr/bin/env python3
"""Regenerate /verif/MANIFEST.json from the table below (keeps it schema-valid)."""
import json, subprocess, sys

claimed = {
 "C12": dict(
   text="Deductively proved (as identities between IEEE-754 terms, for all float64 inputs including NaN and infinities): the Welch, pooled and one-sample t-tests report undersized samples and zero variance as the documented errors and otherwise return the textbook statistic, the textbook degrees of freedom (Welch-Satterthwaite; n1+n2-2; n-1) and sample sizes, in the textbook order of operations; newTTestResult selects the tail — two-sided is twice the upper tail of |t|, less/greater the lower/upper tail of t — from the t distribution with exactly those degrees of freedom.  The numerical content (Student-t and normal distribution functions and inverses, the incomplete beta continued fraction and its convergence, lgamma, and the accuracy of mean/variance/geomean/percentiles) is floating-point analysis outside deductive reach and is covered by a bounded stand-in over degrees of freedom 1..1e5 and random samples against exact rational arithmetic.",
   note="Trusted: TDist.CDF is named by the ghost function tcdf (its values are only checked by the bounded stand-in); math.Sqrt/math.Pow are functions of their arguments; interface methods Weight/Mean/Variance are functions of the receiver; float64->int truncation is uninterpreted.  PairedTTest (Mean/StdDev over a difference vector) is bounded only.",
   technique="contract-based deductive verification (own VC generator over go/ssa; floats as SMT FloatingPoint; interface calls as uninterpreted functions; z3/cvc5) + bounded numerical stand-in against quadrature, textbook formulas and exact rational arithmetic",
   design="5/C12"),
 "C16": dict(
   text="Deductively proved: the column header tree — NewKeyHeader and its recursive closure walk are verified against a tiling contract: at every node the children are non-nil nodes of the next level, each covering at least one key, the first starting at the parent's first key, each next one starting exactly where the previous one ends and the last ending at the parent's last key (no gap, no overlap: every column lies under exactly one header cell per level), with the recursion checked against the same contract and the top level tiling [0, len(keys)); align.lpad pads by character count (centred: half the free width on the left; right: full width; left: none).  The width distribution of Table.Format (two sorts through closures, a permutation of the span's columns, cumulative offsets), the benchtab renderers and the scaler are not under contract: covered by two bounded stand-ins — random tables measured in the rendered text, and text-versus-CSV comparison of whole benchstat runs.  The layout check exposed a genuine defect (a span over only shrink columns was never widened: misaligned header rules in benchstat) — fixed.",
   note="Trusted: FlattenedFields (as in C08); fmt.Sprintf is an uninterpreted function of format and operands (so lpad's contract pins the operands, not the rendered blanks); utf8.RuneCountInString is a function bounded by the byte length.  Termination of the recursive closure is not proved.  Table-key heading lines such as `note: ` (empty value) end in a blank; they are headings, not table lines, and are not counted.",
   technique="contract-based deductive verification (own VC generator over go/ssa; recursive closure verified modularly against its own contract; pair-form quantifiers with arithmetic-free triggers; z3/cvc5) + bounded layout measurement and text/CSV differential check",
   design="5/C16"),
 "C14": dict(
   category="other",
   text="(proof of the per-cell mechanisms + bounded exploration deciding the whole-pipeline statement)  Deductively proved pieces of the pipeline: summarizeCell stores as the cell's summary the unit's assumption applied to the cell's own sample, and as its comparison that assumption applied to (baseline cell's sample, own sample) in this order, leaves the sample and baseline links alone and adds at most one warning; NonSingularFields names exactly the flattened residue fields in which the cell's keys differ (soundness and completeness, for any number of keys and fields, missing values reading as empty) — so a warning names exactly the varying keys; internRow (shared with C08) keeps keys equal across field growth, which is what puts a measurement into the cell of its table/row/column.  The accumulation itself (Builder.Add: nested maps keyed by Key; ToTables: goroutines, map iteration, baseline lookup; summarizeCol: geomeans; flag parsing; the renderers) is outside the subset and is covered by a bounded stand-in that drives the real benchstat() on generated files under six flag settings and recomputes every cell independently.",
   note="Trusted: interface method calls (Assumption.Summary/Compare) are functions of receiver and arguments; mapKeys returns the map's keys; FlattenedFields as in C08.  The one-cell-per-combination and exact-sample claims, p-values, deltas, geomean row and the warning set are bounded evidence only.",
   technique="contract-based deductive verification (own VC generator over go/ssa; interface calls as uninterpreted functions; z3/cvc5) + bounded differential check of the whole command against an independent recomputation",
   design="5/C14"),
 "C08": dict(
   text="Deductive proof of the key table for all rows and all tables: Projection.internRow returns a key of this projection whose stored values are exactly the row buffer with its trailing empty values removed (trimOf: equal on the kept prefix, everything dropped is empty, no trailing empty value — the clause that makes keys from before and after field growth equal), and preserves the representation invariant of the table (every interned node non-nil, owned by this projection, trimmed; buckets own disjoint backing arrays, so appending to one bucket never touches another); keyNode.equalRow holds exactly for element-wise equal value vectors; Key.Get returns the stored value of the field, a missing one reading as empty.  That equal value tuples reach the same node also needs the hash to be a function of the row (hash/maphash is external: unconstrained), and the projection closures write the row buffer through an interior pointer that aliases Projection.row, which the typed-heap model does not express: key identity across field growth, exclusion of specific keys in every parse order, internal configuration never entering .config and the lose-nothing equivalence with the residue are covered by a bounded stand-in on seeded random streams.",
   note="Trusted: FlattenedFields (sync.Once + recursive closure) returns non-nil fields and leaves row and key table alone; hash/maphash calls are unconstrained (any hash value: the proof does not depend on it).  Bounded only: populateRow, the .config/.fullname/specific-key closures, newExtractorFullName, Residue, ProjectValues.",
   technique="contract-based deductive verification (own VC generator over go/ssa; nested map-of-slices representation invariant with ownership; z3/cvc5) + bounded stand-in for the projection closures",
   design="5/C08"),
 "C17": dict(
   text="Deductively proved: Sort goes through the stable library sort (the abstract predicate stableSorted is established only by sort.SliceStable's assumed contract, so replacing it by sort.Slice fails the obligation); UTest and TTest compare exactly the retained values (RValues) of the old and the new side, in that order, two-sided, return the test's p-value and map a test error to pval == -1 with a non-nil error.  The table construction (Tables: outlier fence and retained values, the significance gate, percentage, direction, notes, first-appearance order, geomean) iterates maps and is not under contract: covered by a bounded stand-in that recomputes every cell independently.",
   note="Trusted: the two-sample tests are functions of their arguments (identity of the samples passed); sort.SliceStable is stable.  min <= mean <= max is a floating-point accuracy statement checked only on the bounded corpus.",
   technique="contract-based deductive verification (call-site contracts through abstract predicates; own VC generator over go/ssa) + bounded recomputation of whole tables",
   design="5/C17"),
 "C10": dict(
   text="Deductive proof of CommonScale for all inputs: the chosen scale is the one that the prefix table assigns (first threshold reached, 1/2/3 decimals; below the smallest prefix 3+i decimals) to the smallest non-zero magnitude of the values, and the `not reachable` panic is unreachable — floating-point comparisons and the division modelled exactly (SMT FloatingPoint).  The ulp-level claims (mantissa times factor within half a unit of the last digit, four significant digits, boundaries coinciding with rounding such as 999.95 -> 1.000k), the unit class and the no-op scale rest on float division and strconv formatting, which are not modelled: covered by a bounded stand-in at +-40 (thorough 400) ulps around every threshold with exact decimal arithmetic on the printed text.",
   note="Trusted: the threshold tables have the lengths computed at initialisation (lib/globals.spec); math.Abs; strconv.AppendFloat is correctly rounded.  ClassOf / the unit tokeniser are bounded only.",
   technique="contract-based deductive verification (own VC generator over go/ssa; floats as SMT FloatingPoint; z3/cvc5) + bounded stand-in for the rounding claims",
   design="5/C10"),
 "C11": dict(
   text="Deductively proved for all samples (NaN-free, up to 10^6 values each): MannWhitneyUTest's method and tail selection — it reports empty samples and all-equal samples as the documented errors and otherwise returns, for the tie vector T it has computed (one entry per group of equal pooled values; ties exactly when T has fewer entries than there are values), the sizes, the alternative, and a p-value that is: with the exact method (sizes up to the configured limits, separately with and without ties) the lower tail F(U) for `less`, the upper tail 1 - F(U - 1/2) for `greater`, 1 when U is its own mirror image and twice the smaller tail for untied two-sided tests; otherwise the continuity- and tie-corrected normal approximation for each alternative, as identities between IEEE-754 terms (710 paths, about 14 500 obligations); labeledMerge (sorted, NaN-free, labelled pooled sample).  That the rank-sum loop computes U, and the values of the exact distribution F (UDist.p: dynamic programming; makeUmemo: memoised counting recurrence with its K=2 base case — a combinatorial theorem) are outside deductive reach and are covered by a bounded stand-in: exhaustive comparison with brute-force enumeration of label assignments for every pair of multisets over 4 values with n1+n2 <= 8 (thorough: 10), PMF/CDF consistency, mathChoose against big integers, the normal approximation evaluated independently, error cases.  It exposed two defects that were repaired (K=2 base case; 'greater' tail with ties) and one recorded as a known finding (two-sided p with ties, pinned by an existing test; the contract leaves exactly that case open).",
   note="Trusted: UDist.CDF and NormalDist.CDF are named by ghost functions (their values are bounded evidence only); sort.Float64s sorts and keeps a NaN-free slice NaN-free; tieCorrection, mathSign, math.Sqrt/Min are functions of their arguments; integer products are assumed not to overflow in tieCorrection; the post is existential in the tie vector (witness: the function's own T).",
   technique="contract-based deductive verification of the method/tail selection (own VC generator over go/ssa; floats as SMT FloatingPoint; existential post with a witness hint; z3/cvc5) + bounded exhaustive enumeration against a brute-force oracle for the distribution itself",
   design="5/C11"),
 "C01": dict(
   category="other",
   text="(proof of the reader-side mechanisms + bounded exploration deciding the round-trip statement)  The reader half of the round trip is under deductive contracts shared with C02/C04 (key lines: parseKeyValueLine against the rune-level key rule; the configuration index; parseBenchmarkLine keeps the written value/unit pair whenever it rescales).  The writer's diffing of configurations (writeResult/writeFileConfig: map of struct values, overlapping copy, fmt.Fprintf into a buffer) is NOT under contract in this build; the round-trip statement itself is checked by a bounded stand-in: exhaustive 2-step and sampled 3-step configuration histories over {absent, file, internal} (which exposed the missing deletion on a file-to-internal transition — fixed), all special float values in plain and rescaled units, and seeded random streams with API edits.",
   note="The deciding evidence for the write/read equality is bounded, not a proof; proved obligations concern the reader's line rules only.  Float text: %v shortest round-trip formatting and strconv are trusted.",
   technique="contract-based deductive verification of the reader side (own VC generator over go/ssa) + bounded write/read round trip for the writer",
   design="5/C01"),
 "C19": dict(
   text="Deductive proof of the query algebra: part.merge — several terms on one key mean their conjunction: for every pair of parts (equality, <, >, range, every combination, bytewise string order) the merged part is satisfied by exactly the non-empty values satisfying both, and io.EOF is returned only when no value satisfies both (130 paths, all operand orders); the solver's counterexample for a broken merge is replayed on the real code.  SplitWords is proved panic-free and terminating and returns only non-empty words.  storage Labels.Equal (what decides that consecutive results are stored as one record) holds exactly for label sets of the same size with every label of one present in the other with the same value — the contract exposed that a missing key was treated as an empty value (fixed).  The splitting rule and the front end's quoting (addToQuery then SplitWords gives back exactly the original word) are covered by an exhaustive bounded round trip; SQL execution, record coalescing, the legacy printer/reader, HTTP and the upload listing are out of reach and not claimed.",
   note="Trusted: bytewise string order is modelled by an injective rank into the non-negative integers with the empty string least; io.EOF is non-nil.  Not covered: storage/db SQL, storage/benchfmt, storage/app, client.",
   technique="contract-based deductive verification (own VC generator over go/ssa; string order as an order embedding; z3/cvc5) + exhaustive bounded round trip for the splitter",
   design="5/C19"),
 "C06": dict(
   text="Deductive proof of the filter machinery for every measurement count (symbolic n, so word boundaries at 32, 64, ... are covered): mask operations (set/and/or/not, word level and bit level), Match.Test (bit i), Match.All / Match.Any (sound at bit level for all i < n, with a word-level witness otherwise), Match.Apply (keeps precisely the matching measurements in their original order — keepCount — and reports whether any remain; nothing else in the result changes), Filter.Match (leaves the result untouched), the .unit leaf (bit i set exactly when measurement i's base or written unit matches) and the NOT / AND / OR closures of filterOp: each is verified against the contract of the function type filterFn (a fresh mask with one bit per measurement, or a whole-result verdict, agreeing with its denotation den), so that AND denotes the conjunction and OR the disjunction of the operands' denotations, short-circuits included.  The parser (text to tree), NewFilter's tree walk and the fixed-list filter of makeProjection are covered by a bounded stand-in only.",
   note="Trusted: calls through filterFn values satisfy the type contract (each filterFn under contract is verified against it; the key leaf's extractor call is unconstrained); regexp matching is a function of (regexp, string); uint32 masks are bit-vectors, indices mathematical integers.",
   technique="contract-based deductive verification (own VC generator over go/ssa; bit-vectors; function-type contracts; opaque recursive spec functions; z3/cvc5) + bounded stand-in for the parser",
   design="5/C06"),
 "C07": dict(
   text="Deductive proof of the expression tokenizer for all input strings: quotedWord stops at exactly the closing quote of the Go string literal (reference qEnd; this obligation exposed the escaped-backslash defect — fixed), bareWord ends at the first white-space or operator rune (rune-level reference bwEnd), regexp/regexpParseUntil, and next: the tokenizer always looks at a suffix of the original text, so every token and error offset lies inside the text; every index and slice expression is safe (no panic); every loop terminates and every non-EOF token consumes input.  The recursive-descent parser above the tokenizer and the semantic rejections in NewFilter/makeProjection are not under contract: covered by a bounded stand-in (expressibility in every term position, rejection list, no panic on all short texts).",
   note="Trusted: strconv.Unquote/Quote are functions of their argument (their being inverse is not proved), regexp.Compile, unicode.IsSpace (exact on ASCII/Latin-1), rune decoding of strings is utf8-shaped; string theory: uninterpreted Str with length/byte/substring axioms.",
   technique="contract-based deductive verification (own VC generator over go/ssa; strings as an axiomatised sort; recursive reference functions; z3/cvc5) + bounded stand-in for the parser",
   design="5/C07"),
 "C09": dict(
   text="Deductive proof that key comparison is the lexicographic order over flattened fields with the string fallback (less is verified against the reference lessFrom, missing values reading as empty), and that this order is irreflexive, asymmetric, transitive and total on keys that differ in some flattened field — four property lemmas proved by induction on the field index from the assumption that every field comparator is a total preorder.  The comparators themselves are under contract: alpha is bytewise, num is numOrder over the parsed numbers (numbers first, NaN last), fixed-list and first-observation comparators are rank differences; numOrder and rank difference are proved total preorders.  The fuzzy number parser, the flattened-field cache (sync.Once, recursive closure) and the observation counters are outside the subset: covered by a bounded stand-in (which exposed the missing ranks of .config sub-fields — fixed).",
   note="Trusted: parseNum is a function of its argument; strings.Compare spec; calls through function values with scalar signatures are pure functions of (function value, arguments); the link between a Field's cmp value and the comparator functions under contract is by construction in makeProjection (not proved); sort.Slice sorts with respect to a strict weak order.",
   technique="contract-based deductive verification with ghost lemma functions (induction = recursive ghost call) over go/ssa; z3/cvc5; bounded stand-in for the number parser and field cache",
   design="5/C09"),
 "C13": dict(
   text="Deductive proof of the comparison and rendering contracts of benchmath: all three Compare methods report both sample sizes; the two testing models carry the samples' threshold on every return (the obligation that exposed the missing Alpha in AssumeNormal.Compare — fixed) and report P == 1 with exactly one warning when the underlying test errs; FormatDelta renders '~' exactly when P > Alpha, '0.00%', '?' and otherwise (new/old-1)*100 — as an identity between floating-point terms, for all float64 inputs; PctRangeString's four cases; the median-CI cache returns QuantileCI of exactly the requested (n, confidence).  The statistical content (p in [0,1], symmetry, exact permutation p-value, invariances) lives in the external module go-moremath: covered by a bounded stand-in only; its failure on tied samples is a known finding (not repairable in /repo).",
   note="Trusted: lib specs of go-moremath (shape of results only), math.IsInf/Max, mathx.Sign, sync.Map; fmt.Sprintf/Errorf are uninterpreted functions of format and operands; the Summary methods are not yet under contract.",
   technique="contract-based deductive verification (own VC generator over go/ssa; floats as SMT FloatingPoint; z3/cvc5) + bounded stand-in for the external statistics",
   design="5/C13"),
 "C04": dict(
   text="Deductive proof that every measurement the reader stores is in base units for every float64 value: Reader.parseBenchmarkLine is verified as a whole against valueOK (either the written unit needs no normalisation, or Unit/Value are Tidy's pair and OrigUnit/OrigValue keep the written pair) — the obligation that exposed the `0 ns/op` defect (fixed).  benchunit.Tidy multiplies by the unit's factor; tidyUnit's fast paths and its sync.Map cache are proved coherent with the slow path (cache invariant); UnitMetadataMap.Get looks up under the normalised unit.  tidyUnitUncached and the unit tokeniser are only under a functional (determinism) assumption and a bounded stand-in against a reference normaliser (incl. idempotence), labelled bounded.",
   note="Trusted: tidyUnitUncached is a function of its argument; sync.Map sequential semantics (lib/sync.spec); strings.Contains functional; Tidy's cache invariant is a global invariant not re-checked at call sites.",
   technique="contract-based deductive verification (own VC generator over go/ssa; floats as SMT FloatingPoint; z3/cvc5) + bounded stand-in for the unit tokeniser",
   design="5/C04"),
 "C02": dict(
   text="Deductive proof over the real code of the reader's per-line mechanisms: parseKeyValueLine (against the format's rune-level key rule kvScan, with soundness and ASCII completeness), splitField, the in-place configuration index of Result (ConfigIndex, ensureConfig, deleteConfig, SetConfig, GetConfig: representation invariant, abstract view, slot reuse without aliasing), Result.Clone (deep equality and freshness of every byte slice), Reader.Reset (queue, error and file configuration wiped, unit metadata kept), intern, and the line loop itself: Reader.Scan keeps the reader's representation invariants across every line (well-formed, unaliased configuration index; interning table; unit table), never indexes or slices out of range, stops for good once an error is recorded and reports a record only when one is queued; parseUnitLine keeps the unit table keyed by the normalised unit of each entry and only ever adds entries; isUnitLine — for all inputs, with safety (no panic) obligations everywhere and termination obligations on every loop except the scanner-driven ones.  Files (labels of duplicate and labelled paths, no leakage between files, unit metadata carried across) is covered by an exhaustive bounded stand-in.  Not covered deductively: Scan as a fold over whole inputs (which record follows which line).",
   note="Trusted: lib specs of utf8.DecodeRune, unicode.IsSpace/IsUpper/IsLower (exact on ASCII/Latin-1), bufio.NewScanner; interior pointers passed to contract functions are modelled by copy-in/copy-out; a pointer to the reader's own result boxed into the queue is an opaque non-nil record; bufio.Scanner is unconstrained (termination of the line loop rests on it); the line counter is assumed not to overflow.",
   technique="contract-based deductive verification (own VC generator over go/ssa, loop invariants, modular calls; z3/cvc5) + exhaustive bounded stand-in for Files",
   design="5/C02"),
 "C03": dict(
   text="Deductive proof of the integer paths: benchfmt.atof's fast path (value equals the decimal value of the digits, the overflow guard makes val*10+digit safe — a weakened guard yields the counterexample 9223372036854775809, replayed against strconv), bytesconv.Atoi, ParseInt and ParseUint as the reader uses them (a nil error means the exact mathematical value was returned; no silent wrap-around of uint64/int64).  The multiprecision float slow path (decimal.go, atofHex) is outside deductive reach and is covered only by a bounded differential check against strconv over a stated corpus, labelled bounded.",
   note="Trusted: float64(int64) is correctly rounded by the language; strconv as the oracle of the bounded stand-in; package variables ErrRange/ErrSyntax are distinct after initialisation (lib/globals.spec).  uint64 is modelled as a mathematical integer with explicit wrap-around in ParseUint/ParseInt.",
   technique="contract-based deductive verification (own VC generator over go/ssa; z3/cvc5) + bounded differential stand-in for the float slow path",
   design="5/C03"),
 "C05": dict(
   text="Deductive proof over the real code: contracts on Name.splitGomaxprocs, Name.Parts, Name.Base (and the extractors in benchproc) are discharged for all names of any length, every loop by an inductive invariant; the property lemma verifC05 (base ++ parts covers the name without gap or overlap, Base() is the same base) is proved from those contracts alone.",
   note="Trusted: go/ssa lowering, the gocv VC generator, the SMT solvers, the assumed contract of bytes.IndexByte/bytes.HasPrefix (lib/bytes.spec). Integers are mathematical with proved no-overflow obligations; lengths are bounded by 2^48.",
   technique="contract-based deductive verification (own VC generator over go/ssa, loop invariants, modular calls; z3/cvc5)",
   design="5/C05"),
}

na = {
 "C15": "quantifies over goroutine schedules, data races and map iteration order; sequential function contracts have no notion of interleaving (DESIGN.md 5/C15)",
 "C18": "order-independence over insertion histories through nested maps, PRNG bootstrap and time.Parse: no per-call contract within the verifier's reach decides any sentence of the property (DESIGN.md 5/C18)",
 "C20": "quantifies over fault positions and concurrent transactions across database/sql, multipart and the file store; no contract can express it without assuming the isolation it is about (DESIGN.md 5/C20)",
}
pending = "carriers not yet under contract in this build; planned in DESIGN.md section 5 — not claimed until the obligations exist"

props = [json.loads(l) for l in open('/verif/properties.jsonl')]
hooks = subprocess.run(["git", "-C", "/repo", "log", "--format=%H %s"], capture_output=True, text=True).stdout.strip().split("\n")
hook_commits = [l.split()[0] for l in hooks if l.split(" ",1)[1].startswith("verif:")]

checks = []
for pid, c in sorted(claimed.items()):
    checks.append({
        "property_id": pid,
        "quick_cmd": f"./check {pid} quick",
        "thorough_cmd": f"./check {pid} thorough",
        "evidence_file": f"/verif/evidence/{pid}.json",
        "replay_cmd_template": "./check --replay {path}",
        "engine": "gocv",
        "level_claimed": {"category": c.get("category", "proof"), "text": c["text"], "design_ref": c["design"]},
        "level_note": c["note"],
        "technique": c["technique"],
    })
nas = []
for p in props:
    if p["id"] in claimed: continue
    nas.append({"property_id": p["id"], "reason": na.get(p["id"], pending)})

m = {
 "version": 1,
 "setup_cmd": "/verif/build.sh",
 "hooks": {
   "guard": "verif",
   "enable": "go build tag `verif`: contracts live in comment-only files */contracts_verif.go (//go:build verif) beside the code; gocv loads /repo with -tags=verif",
   "baseline_off_cmd": "cd /repo && go test -vet=off -count=1 -timeout 25m ./...",
   "source_commits": hook_commits,
   "add_only": True,
 },
 "engines": [{"name": "gocv", "path": "/verif/gocv", "serves_properties": sorted(claimed),
   "kind_free_text": "own deductive verifier: symbolic execution of go/ssa (NaiveForm) with loop invariants and modular contracts; VCs in SMT-LIB discharged by z3 4.8.12 / z3 5.1.0 / cvc5 1.0.3; counterexamples replayed on the real code with go test -overlay"}],
 "checks": checks,
 "notes": "see DESIGN.md; known findings in known_findings.json; must-fail corpus in selftest/",
 "not_applicable": nas,
}
json.dump(m, open('/verif/MANIFEST.json', 'w'), indent=1)
print("claimed:", sorted(claimed), "hooks:", len(hook_commits))
