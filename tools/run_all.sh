#!/bin/bash
# Re-run every claimed check (quick) on the current tree, regenerating evidence.
cd /verif
rc=0
for p in $(python3 -c "import json;print(' '.join(c['property_id'] for c in json.load(open('MANIFEST.json'))['checks']))"); do
	./check $p ${1:-quick} 2>&1 | grep -v "solver error" | tail -3
	[ ${PIPESTATUS[0]} -ne 0 ] && rc=1
done
exit $rc
