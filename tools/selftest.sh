#!/bin/bash
# tools/selftest.sh [id-pattern]: the must-fail corpus.  Every seeded change under
# /verif/seeded/<id>/ (patch_adapted_to_fixed_tree.diff if present, else patch.diff)
# is applied to a scratch copy of /repo; the property's quick check must report a
# VIOLATION there.  The harmless refactors under /verif/selftest/harmless/*.diff
# must NOT raise one.  Nothing in /repo or /verif/evidence is touched.
export GOFLAGS=-mod=mod GOPROXY=off GOSUMDB=off GOTOOLCHAIN=local
pat="${1:-}"
scratch=/var/tmp/selftest-repo-$$
out=/var/tmp/selftest-out-$$
trap 'rm -rf "$scratch" "$out"' EXIT
rc=0
run() { # dir patch prop expect(1=violation,0=quiet)
	rm -rf "$scratch" "$out"; mkdir -p "$out"
	git -C /repo worktree prune
	cp -r /repo "$scratch" && rm -rf "$scratch/.git" && (cd "$scratch" && git init -q && git add -A >/dev/null 2>&1 && git -c user.email=a@b -c user.name=x commit -qm base >/dev/null)
	if ! git -C "$scratch" apply "$2" 2>/dev/null; then echo "SKIP $1: patch does not apply"; return; fi
	res=$(cd /verif && VERIF_REPO="$scratch" VERIF_OUT_DIR="$out" ./check "$3" quick 2>&1 | grep -v "solver error")
	n=$(echo "$res" | grep -c '^VIOLATION')
	if [ "$4" = 1 ] && [ "$n" -ge 1 ]; then echo "ok   $1 ($3): detected: $(echo "$res" | grep -m1 '^VIOLATION' | sed 's/.*obligation=//')"
	elif [ "$4" = 0 ] && [ "$n" -eq 0 ]; then echo "ok   $1 ($3): quiet"
	elif [ "$4" = 1 ]; then echo "MISS $1 ($3): no violation reported"; rc=1
	else echo "FALSE-ALARM $1 ($3): $(echo "$res" | grep -m1 '^VIOLATION')"; rc=1; fi
}
for d in /verif/seeded/*/; do
	id=$(basename "$d")
	case "$id" in *"$pat"*) ;; *) continue;; esac
	prop=$(python3 -c "import json;print(json.load(open('$d/meta.json'))['property'])")
	grep -q "\"property_id\": \"$prop\"" /verif/MANIFEST.json || { echo "skip $id: $prop not claimed"; continue; }
	p="$d/patch.diff"; [ -f "$d/patch_adapted_to_fixed_tree.diff" ] && p="$d/patch_adapted_to_fixed_tree.diff"
	run "$id" "$p" "$prop" 1
done
for f in /verif/selftest/harmless/*.diff; do
	[ -f "$f" ] || continue
	id=$(basename "$f" .diff)
	case "$id" in *"$pat"*) ;; *) continue;; esac
	prop=${id%%-*}
	run "harmless/$id" "$f" "$prop" 0
done
exit $rc
