#!/bin/bash
# tools/seedtest2.sh <seed-dir> <property-id>: like seedtest.sh, but everything happens in a
# scratch copy of /repo (demo on pristine / with the change, full suite, the property's check
# through VERIF_REPO), so /repo and /verif/evidence are never touched.
export GOFLAGS=-mod=mod GOPROXY=off GOSUMDB=off GOTOOLCHAIN=local
seed="$1"; prop="$2"
sc=/var/tmp/seed2-repo-$$; out=/var/tmp/seed2-out-$$
trap 'rm -rf "$sc" "$out"' EXIT
rm -rf "$sc" "$out"; mkdir -p "$out"
git -C /repo worktree prune
cp -r /repo "$sc" && rm -rf "$sc/.git" && (cd "$sc" && git init -q && git add -A >/dev/null 2>&1 && git -c user.email=a@b -c user.name=x commit -qm base >/dev/null)
dest=$(head -1 "$seed/demo_test.go" | sed 's|// copy to: ||')
pkg=$(dirname "$dest")
cp "$seed/demo_test.go" "$sc/$dest"
(cd "$sc" && go test -vet=off -count=1 ./$pkg/ >/dev/null 2>&1); pristine=$?
git -C "$sc" apply "$seed/patch.diff" || { echo "patch does not apply"; exit 2; }
(cd "$sc" && go test -vet=off -count=1 ./$pkg/ >/dev/null 2>&1); changed=$?
rm "$sc/$dest"
(cd "$sc" && go build ./... && go test -vet=off -count=1 ./... >/dev/null 2>&1); suite=$?
echo "pristine_exit=$pristine changed_exit=$changed suite_exit=$suite"
(cd /verif && VERIF_REPO="$sc" VERIF_OUT_DIR="$out" ./check "$prop" quick 2>&1 | grep -v "solver error\|^KNOWN" | tail -6 | cut -c1-400)
