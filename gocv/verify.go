package main

import (
	"fmt"
	"go/token"
	"go/types"
	"os"
	"path/filepath"
	"sort"
	"strings"

	"golang.org/x/tools/go/packages"
	"golang.org/x/tools/go/ssa"
	"golang.org/x/tools/go/ssa/ssautil"
)

type Verifier struct {
	fset    *token.FileSet
	prog    *ssa.Program
	pkgs    []*packages.Package
	cs      *ContractSet
	ti      *TypeInfo
	funcs   map[string]*ssa.Function
	loops   map[*ssa.Function]map[*ssa.BasicBlock]*loopInfo
	direct  map[*ssa.Function]*writeSet
	wsets   map[*ssa.Function]*writeSet
	typeIDs map[string]int
	uses    map[string]map[string]bool
	repo    string
	libDir  string
}

func funcKey(fn *ssa.Function) string {
	if p := fn.Parent(); p != nil {
		return funcKey(p) + strings.TrimPrefix(fn.Name(), p.Name())
	}
	if recv := fn.Signature.Recv(); recv != nil {
		t := recv.Type()
		if pt, ok := t.(*types.Pointer); ok {
			t = pt.Elem()
		}
		if n, ok := types.Unalias(t).(*types.Named); ok {
			pkg := ""
			if n.Obj().Pkg() != nil {
				pkg = n.Obj().Pkg().Path()
			}
			return pkg + "." + n.Obj().Name() + "." + fn.Name()
		}
	}
	if fn.Pkg != nil {
		return fn.Pkg.Pkg.Path() + "." + fn.Name()
	}
	if fn.Object() != nil && fn.Object().Pkg() != nil {
		return fn.Object().Pkg().Path() + "." + fn.Name()
	}
	return fn.String()
}

func LoadVerifier(repo, libDir string, patterns []string) (*Verifier, error) {
	cfg := &packages.Config{Mode: packages.LoadAllSyntax, Dir: repo, BuildFlags: []string{"-tags=verif"}, Env: append(os.Environ(), "GOFLAGS=-mod=mod", "GOPROXY=off", "GOSUMDB=off", "GOTOOLCHAIN=local")}
	pkgs, err := packages.Load(cfg, patterns...)
	if err != nil {
		return nil, err
	}
	var errs []string
	packages.Visit(pkgs, nil, func(p *packages.Package) {
		if strings.HasPrefix(p.PkgPath, "golang.org/x/perf") {
			for _, e := range p.Errors {
				errs = append(errs, e.Error())
			}
		}
	})
	if len(errs) > 0 {
		return nil, fmt.Errorf("package errors:\n%s", strings.Join(errs, "\n"))
	}
	prog, _ := ssautil.AllPackages(pkgs, ssa.NaiveForm|ssa.GlobalDebug)
	prog.Build()
	v := &Verifier{fset: prog.Fset, prog: prog, pkgs: pkgs, cs: NewContractSet(), ti: NewTypeInfo(), funcs: map[string]*ssa.Function{},
		loops: map[*ssa.Function]map[*ssa.BasicBlock]*loopInfo{}, direct: map[*ssa.Function]*writeSet{}, wsets: map[*ssa.Function]*writeSet{},
		typeIDs: map[string]int{}, uses: map[string]map[string]bool{}, repo: repo, libDir: libDir}
	for fn := range ssautil.AllFunctions(prog) {
		if fn.Synthetic != "" && fn.Parent() == nil && !strings.HasPrefix(fn.Synthetic, "instance") {
			continue
		}
		v.funcs[funcKey(fn)] = fn
	}
	// methods of every named type of the repository's packages (also unexported ones)
	for _, p := range prog.AllPackages() {
		if !strings.HasPrefix(p.Pkg.Path(), "golang.org/x/perf") {
			continue
		}
		for _, m := range p.Members {
			tn, ok := m.(*ssa.Type)
			if !ok {
				continue
			}
			for _, t := range []types.Type{tn.Type(), types.NewPointer(tn.Type())} {
				ms := prog.MethodSets.MethodSet(t)
				for i := 0; i < ms.Len(); i++ {
					if fn := prog.MethodValue(ms.At(i)); fn != nil && fn.Synthetic == "" {
						if _, ok := v.funcs[funcKey(fn)]; !ok {
							v.funcs[funcKey(fn)] = fn
						}
					}
				}
			}
		}
	}
	// contract files: contracts_verif.go beside the code, in every loaded repo package
	seen := map[string]bool{}
	var loadErr error
	packages.Visit(pkgs, nil, func(p *packages.Package) {
		if !strings.HasPrefix(p.PkgPath, "golang.org/x/perf") || loadErr != nil {
			return
		}
		for _, f := range p.GoFiles {
			if strings.HasSuffix(f, "_verif.go") && !seen[f] {
				seen[f] = true
				if err := v.cs.LoadContractFile(f, p.PkgPath); err != nil {
					loadErr = err
				}
			}
		}
	})
	if loadErr != nil {
		return nil, loadErr
	}
	libs, _ := filepath.Glob(filepath.Join(libDir, "*.spec"))
	sort.Strings(libs)
	for _, f := range libs {
		if err := v.cs.LoadContractFile(f, ""); err != nil {
			return nil, err
		}
	}
	return v, nil
}

func (v *Verifier) typesPkg(path string) *types.Package {
	if path == "" {
		return nil
	}
	for _, p := range v.prog.AllPackages() {
		if p.Pkg.Path() == path {
			return p.Pkg
		}
	}
	return nil
}

func (v *Verifier) typeID(t types.Type) int {
	k := types.TypeString(t, nil)
	if id, ok := v.typeIDs[k]; ok {
		return id
	}
	id := len(v.typeIDs) + 1
	v.typeIDs[k] = id
	return id
}

func (v *Verifier) noteUse(from, to string) {
	if v.uses[from] == nil {
		v.uses[from] = map[string]bool{}
	}
	v.uses[from][to] = true
}

// autoInline: small loop-free leaf-ish repository functions without contracts
// are executed inline (exact semantics, no trust).
func (v *Verifier) autoInline(fn *ssa.Function) bool {
	if fn.Blocks == nil || fn.Pkg == nil || !strings.HasPrefix(fn.Pkg.Pkg.Path(), "golang.org/x/perf") {
		return false
	}
	if len(v.loopInfo(fn)) > 0 {
		return false
	}
	n := 0
	for _, b := range fn.Blocks {
		for _, in := range b.Instrs {
			if _, dbg := in.(*ssa.DebugRef); !dbg {
				n++
			}
			switch in := in.(type) {
			case *ssa.Defer, *ssa.Go, *ssa.Select, *ssa.Send:
				return false
			case *ssa.Call:
				if c, ok := in.Common().Value.(*ssa.Function); ok && c == fn {
					return false
				}
			}
		}
	}
	return n <= 100
}

// ---------------------------------------------------------------------------
// Loops

type heapKeySort struct {
	key  string
	sort Sort
}

type loopInfo struct {
	header    *ssa.BasicBlock
	ordinal   int
	body      map[*ssa.BasicBlock]bool
	modAllocs []*ssa.Alloc
	heapKeys  []heapKeySort
	allocates bool
	rangeIdx  *ssa.Alloc
	rangeLen  ssa.Value // len(x) of the ranged slice, computed before the loop
	rangeIter *ssa.Range
	pos       token.Pos
}

func (v *Verifier) loopInfo(fn *ssa.Function) map[*ssa.BasicBlock]*loopInfo {
	if li, ok := v.loops[fn]; ok {
		return li
	}
	res := map[*ssa.BasicBlock]*loopInfo{}
	v.loops[fn] = res
	if fn.Blocks == nil {
		return res
	}
	for _, b := range fn.Blocks {
		for _, h := range b.Succs {
			if h.Dominates(b) {
				li := res[h]
				if li == nil {
					li = &loopInfo{header: h, body: map[*ssa.BasicBlock]bool{h: true}}
					res[h] = li
				}
				// natural loop of back edge b -> h
				stack := []*ssa.BasicBlock{b}
				for len(stack) > 0 {
					n := stack[len(stack)-1]
					stack = stack[:len(stack)-1]
					if li.body[n] {
						continue
					}
					li.body[n] = true
					stack = append(stack, n.Preds...)
				}
			}
		}
	}
	var headers []*ssa.BasicBlock
	for h := range res {
		headers = append(headers, h)
	}
	sort.Slice(headers, func(i, j int) bool { return headers[i].Index < headers[j].Index })
	for i, h := range headers {
		li := res[h]
		li.ordinal = i + 1
		ws := newWriteSet()
		modA := map[*ssa.Alloc]bool{}
		var blocks []*ssa.BasicBlock
		for b := range li.body {
			blocks = append(blocks, b)
		}
		sort.Slice(blocks, func(i, j int) bool { return blocks[i].Index < blocks[j].Index })
		for _, b := range blocks {
			for _, in := range b.Instrs {
				if li.pos == token.NoPos && in.Pos() != token.NoPos {
					li.pos = in.Pos()
				}
				v.scanInstr(in, ws, modA, true)
				if nx, ok := in.(*ssa.Next); ok && b == h {
					if r, ok := nx.Iter.(*ssa.Range); ok {
						li.rangeIter = r
					}
				}
			}
		}
		for _, in := range h.Instrs {
			if st, ok := in.(*ssa.Store); ok {
				if a, ok := st.Addr.(*ssa.Alloc); ok && a.Comment == "rangeindex" {
					li.rangeIdx = a
				}
			}
		}
		if li.rangeIdx != nil {
			for _, in := range h.Instrs {
				if bo, ok := in.(*ssa.BinOp); ok && bo.Op == token.LSS {
					if c, ok := bo.Y.(*ssa.Call); ok {
						if b, ok := c.Call.Value.(*ssa.Builtin); ok && b.Name() == "len" {
							li.rangeLen = c
						}
					}
				}
			}
		}
		for a := range modA {
			li.modAllocs = append(li.modAllocs, a)
		}
		sort.Slice(li.modAllocs, func(i, j int) bool { return li.modAllocs[i].Pos() < li.modAllocs[j].Pos() })
		li.heapKeys = ws.sorted()
		li.allocates = ws.allocates
	}
	return res
}

// ---------------------------------------------------------------------------
// Write sets

type writeSet struct {
	keys      map[string]Sort
	allocates bool
}

func newWriteSet() *writeSet { return &writeSet{keys: map[string]Sort{}} }

func (w *writeSet) sorted() []heapKeySort {
	var out []heapKeySort
	for k, s := range w.keys {
		out = append(out, heapKeySort{k, s})
	}
	sort.Slice(out, func(i, j int) bool { return out[i].key < out[j].key })
	return out
}

func (w *writeSet) union(o *writeSet) bool {
	changed := false
	for k, s := range o.keys {
		if _, ok := w.keys[k]; !ok {
			w.keys[k] = s
			changed = true
		}
	}
	if o.allocates && !w.allocates {
		w.allocates = true
		changed = true
	}
	return changed
}

func (w *writeSet) withMods(x *Exec, st *State, mods []modObj) *writeSet {
	n := newWriteSet()
	n.union(w)
	for _, m := range mods {
		if _, ok := n.keys[m.key]; !ok {
			if h, ok := st.heap[m.key]; ok {
				n.keys[m.key] = h.Sort
			} else {
				unsup("modifies names heap %s which the caller has not touched; read it first", m.key)
			}
		}
	}
	return n
}

func (v *Verifier) addElem(ws *writeSet, elem types.Type) {
	ws.keys[v.ti.HeapKey(elem)] = v.ti.HeapSort(elem)
}

func (v *Verifier) addMap(ws *writeSet, mt *types.Map) {
	dk, vk, lk := v.ti.MapKeys(mt)
	ks, vs := v.ti.SortOf(mt.Key()), v.ti.SortOf(mt.Elem())
	ws.keys[dk] = ArraySort(SInt, ArraySort(ks, SBool))
	ws.keys[vk] = ArraySort(SInt, ArraySort(ks, vs))
	ws.keys[lk] = ArraySort(SInt, SInt)
}

// addrRoot walks FieldAddr/IndexAddr chains to the object being addressed.
func addrRoot(a ssa.Value) (root ssa.Value) {
	for {
		switch x := a.(type) {
		case *ssa.FieldAddr:
			a = x.X
		case *ssa.IndexAddr:
			if _, isSlice := x.X.Type().Underlying().(*types.Slice); isSlice {
				return x
			}
			a = x.X
		default:
			return a
		}
	}
}

// scanInstr records what an instruction may write.  inLoop additionally
// collects local allocs that are stored to.
func (v *Verifier) scanInstr(in ssa.Instruction, ws *writeSet, modA map[*ssa.Alloc]bool, followCalls bool) {
	switch in := in.(type) {
	case *ssa.Store:
		root := addrRoot(in.Addr)
		switch r := root.(type) {
		case *ssa.Alloc:
			if !r.Heap {
				if modA != nil {
					modA[r] = true
				}
				return
			}
			v.addElem(ws, elemOfPointee(r.Type().Underlying().(*types.Pointer).Elem()))
		case *ssa.IndexAddr:
			v.addElem(ws, r.X.Type().Underlying().(*types.Slice).Elem())
		default:
			if pt, ok := root.Type().Underlying().(*types.Pointer); ok {
				v.addElem(ws, elemOfPointee(pt.Elem()))
			}
		}
	case *ssa.MapUpdate:
		v.addMap(ws, in.Map.Type().Underlying().(*types.Map))
	case *ssa.Alloc:
		if in.Heap {
			ws.allocates = true
			v.addElem(ws, elemOfPointee(in.Type().Underlying().(*types.Pointer).Elem()))
		}
	case *ssa.MakeSlice:
		ws.allocates = true
		v.addElem(ws, in.Type().Underlying().(*types.Slice).Elem())
	case *ssa.MakeMap:
		ws.allocates = true
		v.addMap(ws, in.Type().Underlying().(*types.Map))
	case *ssa.Convert:
		if _, ok := in.Type().Underlying().(*types.Slice); ok {
			if b, ok := in.X.Type().Underlying().(*types.Basic); ok && b.Info()&types.IsString != 0 {
				ws.allocates = true
				v.addElem(ws, in.Type().Underlying().(*types.Slice).Elem())
			}
		}
	case *ssa.Next:
		// iterator position is tracked separately
	case *ssa.Call:
		com := in.Common()
		// a pointer to a local passed to a call may be written through
		if modA != nil {
			for _, a := range com.Args {
				if al, ok := addrRoot(a).(*ssa.Alloc); ok && !al.Heap {
					modA[al] = true
				}
			}
		}
		switch c := com.Value.(type) {
		case *ssa.Builtin:
			switch c.Name() {
			case "append":
				ws.allocates = true
				v.addElem(ws, in.Type().Underlying().(*types.Slice).Elem())
			case "copy":
				v.addElem(ws, com.Args[0].Type().Underlying().(*types.Slice).Elem())
			case "delete":
				v.addMap(ws, com.Args[0].Type().Underlying().(*types.Map))
			}
		case *ssa.Function:
			if followCalls {
				ws.union(v.calleeWrites(c))
			}
		case *ssa.MakeClosure:
			if followCalls {
				ws.union(v.calleeWrites(c.Fn.(*ssa.Function)))
			}
		default:
			// a call through a function value or interface may allocate
			ws.allocates = true
		}
	case *ssa.MakeClosure:
		// conservatively: whoever makes a closure may run it
		if followCalls {
			ws.union(v.calleeWrites(in.Fn.(*ssa.Function)))
		}
	}
}

// calleeWrites: what a call to fn may write, from its contract (externals) or
// from its body (repository code).
func (v *Verifier) calleeWrites(fn *ssa.Function) *writeSet {
	if fn.Blocks == nil {
		ws := newWriteSet()
		if c := v.cs.Contracts[funcKey(fn)]; c != nil && c.Opts["allocates"] != "" {
			ws.allocates = true
		}
		return ws
	}
	if fn.Pkg == nil || !strings.HasPrefix(fn.Pkg.Pkg.Path(), "golang.org/x/perf") {
		// library code with a body: trusted to behave as its spec says (or pure)
		ws := newWriteSet()
		if c := v.cs.Contracts[funcKey(fn)]; c != nil && c.Opts["allocates"] != "" {
			ws.allocates = true
		}
		return ws
	}
	return v.writeSet(fn)
}

func (v *Verifier) writeSet(fn *ssa.Function) *writeSet {
	if ws, ok := v.wsets[fn]; ok {
		return ws
	}
	// collect the reachable repository functions
	var order []*ssa.Function
	seen := map[*ssa.Function]bool{}
	edges := map[*ssa.Function][]*ssa.Function{}
	var visit func(f *ssa.Function)
	visit = func(f *ssa.Function) {
		if seen[f] {
			return
		}
		seen[f] = true
		order = append(order, f)
		d := newWriteSet()
		v.direct[f] = d
		for _, b := range f.Blocks {
			for _, in := range b.Instrs {
				v.scanInstr(in, d, nil, false)
				var callee *ssa.Function
				switch in := in.(type) {
				case *ssa.Call:
					switch c := in.Common().Value.(type) {
					case *ssa.Function:
						callee = c
					case *ssa.MakeClosure:
						callee = c.Fn.(*ssa.Function)
					}
				case *ssa.MakeClosure:
					callee = in.Fn.(*ssa.Function)
				}
				if callee != nil {
					if callee.Blocks != nil && callee.Pkg != nil && strings.HasPrefix(callee.Pkg.Pkg.Path(), "golang.org/x/perf") {
						edges[f] = append(edges[f], callee)
						visit(callee)
					} else if callee.Blocks != nil && callee.Parent() != nil {
						edges[f] = append(edges[f], callee)
						visit(callee)
					} else {
						d.union(v.calleeWrites(callee))
					}
				}
			}
		}
	}
	visit(fn)
	total := map[*ssa.Function]*writeSet{}
	for _, f := range order {
		if done, ok := v.wsets[f]; ok {
			total[f] = done
			continue
		}
		t := newWriteSet()
		t.union(v.direct[f])
		total[f] = t
	}
	for changed := true; changed; {
		changed = false
		for _, f := range order {
			for _, g := range edges[f] {
				if total[f].union(total[g]) {
					changed = true
				}
			}
		}
	}
	for _, f := range order {
		v.wsets[f] = total[f]
	}
	return v.wsets[fn]
}

// ---------------------------------------------------------------------------
// Verifying one function

type FuncResult struct {
	Key         string
	File        string
	Paths       int
	Obligations []*Obligation
	Assumptions []string
	OutOfReach  string // non-empty: the function could not be brought within the subset
	SpecError   string
	Lemma       bool
	Trusted     bool
	Uses        []string
	Params      []ParamVal
	FeasibleReturns, ReturnPaths int
	x           *Exec
}

type ParamVal struct {
	Name string
	V    TV
}

func (v *Verifier) VerifyFunc(key string) (res *FuncResult) {
	res = &FuncResult{Key: key}
	c := v.cs.Contracts[key]
	fn := v.funcs[key]
	if fn == nil {
		res.SpecError = "contract names a function that does not exist: " + key
		return
	}
	if c == nil {
		res.SpecError = "no contract for " + key
		return
	}
	res.Lemma = c.Lemma
	res.File = v.fset.Position(fn.Pos()).Filename
	if c.Trusted {
		res.Trusted = true
		return
	}
	if fn.Blocks == nil {
		res.Trusted = true
		return
	}
	termDefs = map[string]*Term{}
	uintAsInt = c.Opts["uint64"] == "int"
	defer func() { uintAsInt = false }()
	x := NewExec(v, fn, key, c)
	res.x = x
	x.noOverflow = c.NoOverflow
	x.signedWrap = c.Opts["signedwrap"] != ""
	defer func() {
		if r := recover(); r != nil {
			switch e := r.(type) {
			case unsupported:
				res.OutOfReach = e.msg
			case specError:
				res.SpecError = e.msg
			default:
				panic(r)
			}
		}
		for a := range x.assumptions {
			res.Assumptions = append(res.Assumptions, a)
		}
		sort.Strings(res.Assumptions)
		for u := range v.uses[key] {
			res.Uses = append(res.Uses, u)
		}
		sort.Strings(res.Uses)
	}()
	// parameter names must match the contract header (drift guard)
	if len(c.Params) != len(fn.Params) {
		res.SpecError = fmt.Sprintf("%s: contract header has %d parameters, function has %d", key, len(c.Params), len(fn.Params))
		return
	}
	// (parameters are bound by position: renaming one in the code is harmless)
	if n := len(v.loopInfo(fn)); n != len(c.Loops) {
		for ord := range c.Loops {
			if ord > n {
				res.SpecError = fmt.Sprintf("%s: contract has an invariant for loop %d but the function has %d loops", key, ord, n)
				return
			}
		}
	}

	x.declare("alloc0", SInt)
	st := &State{cells: map[*Cell]Value{}, heap: map[string]*Term{}, alloc: Atom("alloc0", SInt)}
	st.entry = &Snapshot{heap: map[string]*Term{}, vars: map[string]Value{}, alloc: st.alloc}
	st.assume(Le(IntLit(0), st.alloc))
	fr := &Frame{fn: fn, regs: map[ssa.Value]Value{}, allocCell: map[*ssa.Alloc]*Cell{}, variants: map[*ssa.BasicBlock]*Term{}, entered: map[*ssa.BasicBlock]bool{}, contract: c}
	st.frames = []*Frame{fr}
	var args []Value
	for _, p := range fn.Params {
		val := x.freshValue(st, "p_"+p.Name(), p.Type())
		fr.regs[p] = val
		args = append(args, val)
		if tv, ok := val.(TV); ok {
			res.Params = append(res.Params, ParamVal{p.Name(), tv})
		}
	}
	for _, fv := range fn.FreeVars {
		// captured variables live in the heap; the closure holds pointers to them
		val := x.freshValue(st, "fv_"+fv.Name(), fv.Type())
		if tv, ok := val.(TV); ok && tv.T.Sort == SPtr {
			st.assume(Not(Eq(Sel("p-ref", tv.T), IntLit(0))))
		}
		fr.regs[fv] = val
	}
	vars := x.paramEnvVars(fn, c, args)
	st.entry.vars = vars
	env := &Env{x: x, st: st, heap: st.heap, vars: vars, old: st.entry, alloc: st.alloc}
	x.addFreeVarLookup(env, st, fr)
	for _, r := range c.Requires {
		st.assume(x.compileBool(env, r.Expr, r))
	}
	for _, g := range v.cs.Globals {
		if p := v.typesPkg(g.PkgPath); p != nil {
			genv := &Env{x: x, st: st, heap: st.heap, vars: map[string]Value{}, old: st.entry, alloc: st.alloc, pkg: p}
			st.assume(x.compileBool(genv, g.Clause.Expr, g.Clause))
			x.assumeNote("package variables after initialisation (" + g.PkgPath + "): " + g.Clause.Text)
		}
	}
	// vacuity: the preconditions (with typing facts) must be satisfiable
	x.obls = append(x.obls, &Obligation{Fn: key, Kind: "vacuity", Label: key + "/vacuity/requires-satisfiable", Hyps: append([]*Term(nil), st.hyps...), Goal: True, ExpectSat: true})
	mods := x.modObjects(env, c)

	outs := x.run(st, fn.Blocks[0], 0)
	res.Paths = len(outs)
	for _, o := range outs {
		post := &Env{x: x, st: o.st, heap: o.st.heap, vars: map[string]Value{}, old: o.st.entry, alloc: o.st.alloc}
		for k, val := range vars {
			post.vars[k] = val
		}
		x.addFreeVarLookup(post, o.st, fr)
		x.bindResults(post, fn.Signature, c, o.results)
		// witnesses of existentials may name locals at the return point
		rfr := fr
		if len(o.st.frames) > 0 {
			rfr = o.st.frames[0]
		}
		if be := x.baseEnv(o.st, rfr); be.lookup != nil {
			prev, locals := post.lookup, be.lookup
			post.lookup = func(name string) (Value, bool) {
				if prev != nil {
					if v, ok := prev(name); ok {
						return v, true
					}
				}
				return locals(name)
			}
		}
		for _, e := range c.Ensures {
			g := x.compileBool(post, withWitnesses(e.Expr), e)
			x.oblige(o.st, "ensures", e.Name, g, fn.Pos(), e)
		}
		x.frameObligations(o.st, mods, fn.Pos())
		// reachability probe: the hypotheses collected along this return path must not be contradictory
		x.obls = append(x.obls, &Obligation{Fn: key, Kind: "reach", Label: key + "/vacuity/return-reachable", Hyps: append([]*Term(nil), o.st.hyps...), Goal: True, ExpectSat: true, Path: append([]int(nil), o.st.trace...)})
	}
	res.Obligations = x.obls
	for _, o := range x.obls {
		o.Script = "" // built lazily
	}
	v.finish(x, res)
	return
}

// addFreeVarLookup lets contracts of closures name captured variables.
func (x *Exec) addFreeVarLookup(env *Env, st *State, fr *Frame) {
	if len(fr.fn.FreeVars) == 0 {
		return
	}
	prev := env.lookup
	env.lookup = func(name string) (Value, bool) {
		for _, fv := range fr.fn.FreeVars {
			if fv.Name() == name {
				if v, ok := fr.regs[fv]; ok {
					return x.loadQuiet(st, v), true
				}
			}
		}
		if prev != nil {
			return prev(name)
		}
		return nil, false
	}
}

// frameObligations: every heap the path wrote keeps the contents of all
// pre-existing objects that the modifies clause does not name.
func (x *Exec) frameObligations(st *State, mods []modObj, pos token.Pos) {
	for _, key := range sortedHeapKeys(st.heap) {
		h := st.heap[key]
		base, ok := st.entry.heap[key]
		if !ok || h == base || h.String() == base.String() {
			continue
		}
		r := Atom("r!q", SInt)
		cond := []*Term{Lt(IntLit(0), r), Le(r, st.entry.alloc)}
		for _, m := range mods {
			if m.key == key {
				cond = append(cond, m.excludes(r))
			}
		}
		g := &Term{Op: "forall", Sort: SBool, Bound: []*Term{r}, Args: []*Term{Implies(And(cond...), Eq(Select(h, r), Select(base, r)))}}
		x.oblige(st, "frame", "frame:"+key, g, pos, nil)
	}
}

var _ = filepath.Join
