package main

import (
	"encoding/json"
	"fmt"
	"os"
	"path/filepath"
	"regexp"
	"sort"
	"strconv"
	"strings"
	"time"
)

// PropSpec says which packages carry a property.  The carriers themselves are
// the contracts tagged "props <id>" in the contract files, plus every contract
// they use (transitively).
type PropSpec struct {
	ID   string
	Pkgs []string
	// Bounded stand-ins (never counted as proved).
	BoundedChecks []boundedSpec
}

var propSpecs = map[string]*PropSpec{
	"C01": {ID: "C01", Pkgs: []string{"./benchfmt", "./benchunit", "./benchfmt/internal/bytesconv"}, BoundedChecks: []boundedSpec{
		{"benchfmt", "roundtrip", "write then read back: exhaustive short configuration histories (file / internal / absent transitions), every special float value in plain and rescaled units, and seeded random streams with API edits — the writer's diffing is not under contract"}}},
	"C02": {ID: "C02", Pkgs: []string{"./benchfmt", "./benchunit", "./benchfmt/internal/bytesconv"}, BoundedChecks: []boundedSpec{
		{"benchfmt", "files", "Files over every short argument list of bare and labelled paths (duplicates, the same path bare and labelled, labels on and off): the .file label of every result (own label, duplicates disambiguated as path#k), file configuration not leaking into the next file, unit metadata carried across — Files.init/Scan open real files and count paths in maps; not under contract"}}},
	"C03": {ID: "C03", Pkgs: []string{"./benchfmt", "./benchunit", "./benchfmt/internal/bytesconv"}, BoundedChecks: []boundedSpec{
		{"benchfmt/internal/bytesconv", "parsefloat", "bytesconv.ParseFloat and Atoi agree bit for bit (value and error kind) with strconv on an enumerated corpus — stands in for the multiprecision slow path (decimal.go, atofHex), which is outside deductive reach"}}},
	"C04": {ID: "C04", Pkgs: []string{"./benchfmt", "./benchunit", "./benchproc", "./benchfmt/internal/bytesconv"}, BoundedChecks: []boundedSpec{
		{"benchunit", "tidy", "Tidy against a reference normaliser written from the documented rule (numerator ns->sec /1e9, MB->B *1e6 per token; substrings and denominators untouched), its idempotence, and agreement of fast paths, slow path and cache — stands in for tidyUnitUncached and the unit tokeniser, which are not under a functional contract"}}},
	"C05": {ID: "C05", Pkgs: []string{"./benchfmt", "./benchproc"}, BoundedChecks: []boundedSpec{
		{"benchproc", "extract", "key extraction (/k first segment, /gomaxprocs, absent = empty) against a reference written from the format description, for every name up to a stated length over the alphabet {a b / - = 1}"}}},
	"C06": {ID: "C06", Pkgs: []string{"./benchproc", "./benchproc/internal/parse"}, BoundedChecks: []boundedSpec{
		{"benchproc", "filtersem", "whole filters against reference boolean semantics per measurement (Test, All, Any, Apply, Match leaves the result untouched), in varied concrete syntax, with measurement counts crossing 32 and 64; fixed-list projections"}}},
	"C07": {ID: "C07", Pkgs: []string{"./benchproc", "./benchproc/internal/parse"}, BoundedChecks: []boundedSpec{
		{"benchproc", "filtersyntax", "expressibility of arbitrary strings as quoted words in every term position, unquoted words, the documented rejections, and no panic / positioned errors on every short text over the syntax alphabet — stands in for the recursive-descent parser and the semantic checks in NewFilter/makeProjection, which are not under contract"}}},
	"C08": {ID: "C08", Pkgs: []string{"./benchproc"}, BoundedChecks: []boundedSpec{
		{"benchproc", "keys", "key identity against independently extracted value tuples across field growth, Key.Get exactness, per-unit keys, exclusion of specific keys from .config/.fullname in every parse order, internal configuration never entering .config, and the lose-nothing equivalence with the residue, on seeded random streams — the projection closures (which alias the row buffer through an interior pointer), populateRow and the lazily built full-name extractor are not under contract"}}},
	"C09": {ID: "C09", Pkgs: []string{"./benchproc"}, BoundedChecks: []boundedSpec{
		{"benchproc", "keyorder", "the documented per-field orders against reference semantics (incl. the fuzzy number parser, which is only under a determinism assumption), first-observation ranks of .config sub-fields, the flattened-field cache, and the order axioms / arrangement independence of SortKeys on concrete key sets"}}},
	"C10": {ID: "C10", Pkgs: []string{"./benchunit"}, BoundedChecks: []boundedSpec{
		{"benchunit", "scale", "the half-unit accuracy and digit-count claims at every threshold (exact decimal arithmetic on the printed text), shared scales, unit classes and the no-op scale — the rounding of val/factor and strconv's fixed formatting are not modelled deductively"}}},
	"C11": {ID: "C11", Pkgs: []string{"./internal/stats"}, BoundedChecks: []boundedSpec{
		{"internal/stats", "utest", "U statistic, exact one- and two-sided p-values, PMF/CDF of the U distribution against brute-force enumeration of label assignments; mathChoose against big integers; the normal approximation evaluated independently; error cases — stands in for UDist.p / makeUmemo (combinatorial recurrences) and the rank-sum loop, which are outside deductive reach"}}},
	"C12": {ID: "C12", Pkgs: []string{"./internal/stats"}, BoundedChecks: []boundedSpec{
		{"internal/stats", "dist", "Student-t distribution function for degrees of freedom from 1 to 1e5 (incl. non-integers) on a grid over [-8,8]: range, monotonicity, symmetry, no failure to converge, agreement with Simpson integration of the density, the generic inverse; incomplete-beta symmetry; normal distribution and its inverse; all four t-tests against the textbook formulas with unequal sizes and all alternatives, error cases; mean, variance, bounds, geometric mean and R8 percentiles of random samples (1-300 values, scales 1e-6..1e5, common offsets, multiplicities, unsorted) against exact rational evaluation — lgamma, the continued fraction, erfc, bisection and the summation loops are floating-point algorithms outside deductive reach"}}},
	"C13": {ID: "C13", Pkgs: []string{"./benchmath"}, BoundedChecks: []boundedSpec{
		{"benchmath", "compare", "AssumeNothing.Compare on all pairs of small samples: both sizes, p in [0,1], symmetric, invariant under reordering and common rescaling, equal to the exact permutation p-value for untied samples, threshold carried — the statistical content lives in the external module go-moremath and is outside deductive reach"}}},
	"C14": {ID: "C14", Pkgs: []string{"./cmd/benchstat/internal/benchtab", "./benchproc", "./benchmath"}, BoundedChecks: []boundedSpec{
		{"cmd/benchstat", "pipeline", "the real benchstat() entry point on generated input files under six flag settings (-table/-row/-col/-ignore/-filter), CSV output compared with an independent recomputation from the generated measurements: one cell per (table,row,column) with at least one filtered measurement and no others, centre = median of exactly those values, baseline = first column's cell of the row, sample sizes baseline first, exact rank-sum p-value and delta for untied samples, geomean row, and exactly the expected `benchmarks vary in` warnings — Builder.Add, ToTables (goroutines, maps keyed by Key), summarizeCol and the renderers are not under contract"}}},
	"C16": {ID: "C16", Pkgs: []string{"./cmd/benchstat/internal/texttab", "./benchproc"}, BoundedChecks: []boundedSpec{
		{"cmd/benchstat/internal/texttab", "layout", "random tables laid out by the real Table.Format and measured in the output: every cell's text present in full, inside the columns it spans, left cells at the column start, right-aligned cells of a column ending at one offset, centred cells evenly padded, no overlap within a line, no line ending in blanks — the width distribution loop (sorts through closures, permutation of columns) is not under contract"},
		{"cmd/benchstat", "textcsv", "text and CSV renderings of the same generated inputs under five flag settings: same tables, row labels, intervals, deltas, comparison strings and warning messages; every scaled number equals the CSV value to within half a unit of its last printed digit; header rules at the column boundaries on every header line; numbers of a column end at one offset and lie inside the column's rules — Table.ToText/ToCSV and the scaler are not under contract"}}},
	"C17": {ID: "C17", Pkgs: []string{"./benchstat", "./internal/stats"}, BoundedChecks: []boundedSpec{
		{"benchstat", "legacy", "whole Tables() outputs against an independent recomputation: outlier fence (R8 quartiles) and retained values in input order, min<=mean<=max, the significance gate / percentage / direction / note for every pair of samples and each delta test, first-appearance and stable sort order, geomean row — Tables, computeStats and addGeomean are not under contract"}}},
	"C18": {ID: "C18", Pkgs: []string{"./benchseries"}, BoundedChecks: []boundedSpec{
		{"benchseries", "series", "the real Builder fed one generated result set in five orders (in order, reversed, three shuffles): identical tables, benchmarks, series, hash pairs, samples and bootstrap summaries for every order; the samples of every series point equal an independent selection of the matching measurements (latest experiment under the replace policy, concatenation under combine); summaries present exactly when there is a denominator, reproducible, low <= centre <= high, all inside [min nu / max de, max nu / min de]; percentile and median on sorted slices against the order statistics, the percentile position inside the slice for every p < 1 — Builder.Add and AllComparisonSeries (nested maps, map iteration) are not under contract"},
		{"benchseries", "dates", "NormalizeDateString on random instants in both accepted formats and several zone offsets: one string per instant, ParseNormalizedDateString gives the instant back, string order equals time order (sub-second parts included) — time.Parse/Format are opaque to the verifier"}}},
	"C19": {ID: "C19", Pkgs: []string{"./storage/db", "./storage/query", "./storage/benchfmt"}, BoundedChecks: []boundedSpec{
		{"storage/db", "merge", "pairs and triples of query parts on one key evaluated by brute force (conjunction semantics, contradiction detection), and parseQuery on multi-term queries"},
		{"analysis/app", "roundtrip", "a label value quoted by addToQuery is split back by SplitWords into exactly the original word, for every short string over the characters that matter to quoting"}}},
}

type KnownFinding struct {
	Property   string `json:"property"`
	Status     string `json:"status"` // known | fixed
	Obligation string `json:"obligation"`
	What       string `json:"what"`
	Commit     string `json:"commit,omitempty"`
	Input      string `json:"input,omitempty"`
	// For findings of bounded stand-ins: the check and the class of failing inputs.
	Bounded string `json:"bounded,omitempty"`
	Class   string `json:"class,omitempty"`
}

func loadKnownFindings(path string) []KnownFinding {
	data, err := os.ReadFile(path)
	if err != nil {
		return nil
	}
	var out []KnownFinding
	if err := json.Unmarshal(data, &out); err != nil {
		fmt.Fprintln(os.Stderr, "known_findings.json:", err)
		os.Exit(2)
	}
	return out
}

var pathSuffix = regexp.MustCompile(`#\d+$`)

// stableLabel strips the per-path numbering from an obligation label.
func stableLabel(l string) string {
	for pathSuffix.MatchString(l) {
		l = pathSuffix.ReplaceAllString(l, "")
	}
	return shortKey(l)
}

var ensuresClause = regexp.MustCompile(`^(.*/ensures/ensures#\d+)`)

// findingLabel is the label under which a known finding is recorded: the stable
// label, except that a postcondition keeps its clause number (so that a finding on
// one clause of a contract does not cover the other clauses).
func findingLabel(l string) string {
	if m := ensuresClause.FindString(l); m != "" {
		return shortKey(m)
	}
	return stableLabel(l)
}

type fnEvidence struct {
	Name        string `json:"name"`
	File        string `json:"file"`
	Paths       int    `json:"paths"`
	Obligations int    `json:"obligations"`
	Discharged  int    `json:"discharged"`
	Lemma       bool   `json:"property_lemma,omitempty"`
}

type sampleEvidence struct {
	Obligation string  `json:"obligation"`
	Kind       string  `json:"kind"`
	Status     string  `json:"status"`
	Solver     string  `json:"solver"`
	TimeS      float64 `json:"time_s"`
	Pos        string  `json:"pos,omitempty"`
}

func runProperty(repo, lib, prop, tier string) int {
	start := time.Now()
	seed := 0
	if s := os.Getenv("VERIF_SEED"); s != "" {
		seed, _ = strconv.Atoi(s)
	}
	ps := propSpecs[prop]
	verifDir := filepath.Dir(strings.TrimRight(lib, "/"))
	if d := os.Getenv("VERIF_OUT_DIR"); d != "" {
		// self-test runs write their evidence and replay files elsewhere
		os.MkdirAll(filepath.Join(d, "lib"), 0o755)
		for _, sub := range []string{"replay", "known_findings.json"} {
			os.Symlink(filepath.Join(verifDir, sub), filepath.Join(d, sub))
		}
		verifDir = d
	}
	evPath := filepath.Join(verifDir, "evidence", prop+".json")
	os.MkdirAll(filepath.Join(verifDir, "evidence", "replay"), 0o755)
	if old, _ := filepath.Glob(filepath.Join(verifDir, "evidence", "replay", prop+"-*")); len(old) > 0 {
		for _, f := range old {
			os.Remove(f) // replay files of earlier runs
		}
	}
	if ps == nil {
		fmt.Fprintf(os.Stderr, "property %s is not claimed (see MANIFEST.json not_applicable)\n", prop)
		return 2
	}
	timeout := 20
	if tier == "thorough" {
		timeout = 90
		CrossCheck = true
	}
	v, err := LoadVerifier(repo, lib, ps.Pkgs)
	if err != nil {
		// the tree does not build or a contract file is malformed: the check cannot run
		fmt.Fprintln(os.Stderr, "load:", err)
		return 2
	}
	known := loadKnownFindings(filepath.Join(verifDir, "known_findings.json"))
	for _, kf := range known {
		if kf.Property == prop && kf.Status == "known" && kf.Bounded == "" {
			NoRetryLabels[kf.Obligation] = true
		}
	}

	// carriers: tagged contracts, then everything they use
	var queue []string
	for k, c := range v.cs.Contracts {
		for _, p := range c.Props {
			if p == prop {
				queue = append(queue, k)
			}
		}
	}
	sort.Strings(queue)
	done := map[string]*FuncResult{}
	var order []string
	trusted := map[string]bool{}
	stats := &SolveStats{bySolver: map[string]float64{}, nBySolver: map[string]int{}}
	for len(queue) > 0 {
		k := queue[0]
		queue = queue[1:]
		if _, ok := done[k]; ok {
			continue
		}
		c := v.cs.Contracts[k]
		if c == nil {
			continue
		}
		if c.Inline {
			continue
		}
		res := v.VerifyFunc(k)
		done[k] = res
		order = append(order, k)
		if res.Trusted {
			trusted[k] = true
			continue
		}
		if res.SpecError == "" && res.OutOfReach == "" {
			v.Solve(res, timeout, stats)
		}
		for _, u := range res.Uses {
			queue = append(queue, u)
		}
	}

	var fns []fnEvidence
	var samples []sampleEvidence
	var slow []sampleEvidence // the slowest obligations of the run (robustness audit)
	assumptions := map[string]bool{}
	totalObl, totalDis := 0, 0
	violations := 0
	knownHit := map[int]bool{}
	var lines []string
	nReplay := 0
	reported := map[string]bool{} // one VIOLATION line per clause, not per path
	var knownLines []string
	for _, k := range order {
		res := done[k]
		if res.Trusted {
			continue
		}
		if res.SpecError != "" || res.OutOfReach != "" {
			// The contract no longer fits the code (or the code left the subset):
			// the obligations of this function cannot be generated, so the
			// property is undecided for it; reported as a violation of the
			// named function's contract without a failing input.
			reason := res.SpecError
			if reason == "" {
				reason = "out of the verifier's subset: " + res.OutOfReach
			}
			violations++
			nReplay++
			rp := filepath.Join(verifDir, "evidence", "replay", fmt.Sprintf("%s-%d.json", prop, nReplay))
			writeJSON(rp, map[string]any{"property": prop, "obligation": shortKey(k) + "/contract", "status": "obligations-not-generated", "reason": reason})
			lines = append(lines, fmt.Sprintf("VIOLATION property=%s replay=%s obligation=%s/contract no-failing-input-found", prop, rp, shortKey(k)))
			fns = append(fns, fnEvidence{Name: shortKey(k), File: res.File})
			continue
		}
		fe := fnEvidence{Name: shortKey(k), File: strings.TrimPrefix(res.File, repo+"/"), Paths: res.Paths, Lemma: res.Lemma}
		for _, o := range res.Obligations {
			fe.Obligations++
			isKnown := false
			if o.Status != "discharged" {
				for i, kf := range known {
					if kf.Property == prop && kf.Status == "known" && (kf.Obligation == stableLabel(o.Label) || kf.Obligation == findingLabel(o.Label)) {
						isKnown = true
						knownHit[i] = true
					}
				}
			}
			if o.Status == "discharged" {
				fe.Discharged++
				totalDis++
				totalObl++
			} else if isKnown {
				// not counted as an obligation of the proof
				continue
			} else if reported[stableLabel(o.Label)] {
				totalObl++
				violations++
			} else {
				reported[stableLabel(o.Label)] = true
				totalObl++
				violations++
				nReplay++
				rp := filepath.Join(verifDir, "evidence", "replay", fmt.Sprintf("%s-%d.json", prop, nReplay))
				found := replayObligation(v, res, o, prop, rp, verifDir)
				suffix := ""
				if !found {
					suffix = " no-failing-input-found"
				}
				lines = append(lines, fmt.Sprintf("VIOLATION property=%s replay=%s obligation=%s%s", prop, rp, shortKey(o.Label), suffix))
			}
			if o.Kind != "vacuity" && o.Time > 1 {
				slow = append(slow, sampleEvidence{shortKey(o.Label), o.Kind, o.Status, o.Solver, round3(o.Time), ""})
			}
			if len(samples) < 40 && (o.Status != "discharged" || len(samples) < 25) {
				pos := ""
				if o.Pos.IsValid() {
					pos = fmt.Sprintf("%s:%d", strings.TrimPrefix(o.Pos.Filename, repo+"/"), o.Pos.Line)
				}
				samples = append(samples, sampleEvidence{shortKey(o.Label), o.Kind, o.Status, o.Solver, round3(o.Time), pos})
			}
		}
		for _, a := range res.Assumptions {
			assumptions[a] = true
		}
		fns = append(fns, fe)
	}
	var knownObls []string
	for i, kf := range known {
		if kf.Property == prop && kf.Status == "known" && knownHit[i] {
			knownLines = append(knownLines, fmt.Sprintf("KNOWN-FINDING: property=%s %s (%s)", prop, kf.What, kf.Obligation))
			knownObls = append(knownObls, kf.Obligation)
		}
	}
	// bounded stand-ins
	bounded := runBounded(v, ps, tier, seed, verifDir, &lines, &violations, &nReplay, known, &knownLines)

	var tb []string
	for k := range trusted {
		tb = append(tb, "assumed contract: "+shortKey(k))
	}
	sort.Strings(tb)
	tb = append(tb, "go/packages+go/ssa (x/tools v0.29.0) lowering of the current working tree, build tag verif",
		"gocv VC generator (/verif/gocv), validated by /verif/selftest must-fail corpus",
		"SMT solvers z3 4.8.12, z3 5.1.0 (z3-new), cvc5 1.0.3")
	var as []string
	for a := range assumptions {
		as = append(as, a)
	}
	sort.Strings(as)
	as = append(as, "integers: signed Go ints are mathematical Int with a no-overflow obligation at every + - * / and unary -; uint8/uint16 wrap modulo 2^w; uint32/uint64/uint are bit-vectors",
		"slice and string lengths are at most 2^48 (address-space bound)",
		"memory: typed heaps per element type; distinct element types never alias; allocation returns references above every existing one")
	solverTime := map[string]float64{}
	for s, t := range stats.bySolver {
		solverTime[s] = round3(t)
	}
	cov := map[string]any{
		"obligations":              totalObl,
		"discharged":               totalDis,
		"checker_cmd":              fmt.Sprintf("/verif/bin/gocv -prop %s -tier %s", prop, tier),
		"trusted_base":             tb,
		"samples":                  samples,
		"slowest":                  slowest(slow, 12),
		"functions_under_contract": fns,
		"solver_time_s":            solverTime,
		"solver_queries":           stats.nBySolver,
		"integer_model":            "mathematical Int with proved no-overflow obligations; uint32/64 as bit-vectors",
		"contract_files":           relFiles(v.cs.Files, repo),
	}
	if CrossCheck {
		cov["second_solver_cross_check"] = map[string]any{"sampled": stats.crossChecked, "agreed_unsat": stats.crossAgreed, "undecided_by_second_solver": stats.crossChecked - stats.crossAgreed - len(stats.crossDisagree), "disagreements": stats.crossDisagree}
		for _, d := range stats.crossDisagree {
			violations++
			lines = append(lines, fmt.Sprintf("VIOLATION property=%s replay=%s obligation=solver-disagreement:%s no-failing-input-found", prop, filepath.Join(verifDir, "evidence", prop+".json"), shortKey(d)))
		}
	}
	if len(knownObls) > 0 {
		cov["known_finding_obligations"] = knownObls
	}
	if bounded != nil {
		cov["bounded"] = bounded
	}
	// the level recorded is the one claimed in MANIFEST.json; for `other` the run explains itself
	level := "proof"
	if data, err := os.ReadFile(filepath.Join("/verif", "MANIFEST.json")); err == nil {
		var mf struct {
			Checks []struct {
				PropertyID   string `json:"property_id"`
				LevelClaimed struct {
					Category string `json:"category"`
				} `json:"level_claimed"`
			} `json:"checks"`
		}
		if json.Unmarshal(data, &mf) == nil {
			for _, c := range mf.Checks {
				if c.PropertyID == prop && c.LevelClaimed.Category != "" {
					level = c.LevelClaimed.Category
				}
			}
		}
	}
	if level == "other" {
		nb, nc := 0, 0
		for _, b := range bounded {
			if m, ok := b.(map[string]any); ok {
				nb++
				if c, ok := m["cases"].(float64); ok {
					nc += int(c)
				}
			}
		}
		cov["explanation"] = fmt.Sprintf("two kinds of evidence in one run: (1) deductive proof of the mechanisms under contract — %d obligations generated from the current source, %d discharged by z3/cvc5 (keys obligations, discharged, functions_under_contract, trusted_base); (2) %d bounded stand-in(s), %d cases on this run, deciding the end-to-end statement of the property by exploration of the real code against an independent oracle (key bounded: bound, cases, failures).  Only (1) is proof; (2) is labelled bounded and is not counted among the obligations.", totalObl, totalDis, nb, nc)
	}
	ev := map[string]any{
		"property_id": prop,
		"tier":        tier,
		"seed":        seed,
		"level":       level,
		"coverage":    cov,
		"assumptions": as,
		"wall_s":      round3(time.Since(start).Seconds()),
		"violations":  violations,
	}
	writeJSON(evPath, ev)
	for _, l := range knownLines {
		fmt.Println(l)
	}
	for _, l := range lines {
		fmt.Println(l)
	}
	fmt.Printf("%s %s: %d functions under contract, %d/%d obligations discharged, %d violations, %.1fs\n", prop, tier, len(fns), totalDis, totalObl, violations, time.Since(start).Seconds())
	if totalObl == 0 {
		fmt.Println("no obligations were generated: vacuous run")
		return 2
	}
	if violations > 0 {
		return 1
	}
	return 0
}

func relFiles(fs []string, repo string) []string {
	var out []string
	for _, f := range fs {
		out = append(out, strings.TrimPrefix(f, repo+"/"))
	}
	return out
}

func round3(f float64) float64 { return float64(int(f*1000+0.5)) / 1000 }

func writeJSON(path string, v any) {
	data, _ := json.MarshalIndent(v, "", " ")
	os.WriteFile(path, append(data, '\n'), 0o644)
}

func slowest(s []sampleEvidence, n int) []sampleEvidence {
	sort.Slice(s, func(i, j int) bool { return s[i].TimeS > s[j].TimeS })
	if len(s) > n {
		s = s[:n]
	}
	return s
}
