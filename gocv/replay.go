package main

import (
	"context"
	"encoding/json"
	"fmt"
	"go/types"
	"math"
	"math/big"
	"os"
	"os/exec"
	"path/filepath"
	"sort"
	"strings"
	"time"
)

// ---------------------------------------------------------------------------
// S-expressions (solver output)

type sx struct {
	atom string
	list []*sx
}

func parseSx(s string) []*sx {
	var out []*sx
	i := 0
	var parse func() *sx
	skip := func() {
		for i < len(s) {
			c := s[i]
			if c == ' ' || c == '\n' || c == '\t' || c == '\r' {
				i++
			} else if c == ';' {
				for i < len(s) && s[i] != '\n' {
					i++
				}
			} else {
				return
			}
		}
	}
	parse = func() *sx {
		skip()
		if i >= len(s) {
			return nil
		}
		if s[i] == '(' {
			i++
			n := &sx{list: []*sx{}}
			for {
				skip()
				if i >= len(s) {
					return n
				}
				if s[i] == ')' {
					i++
					return n
				}
				c := parse()
				if c == nil {
					return n
				}
				n.list = append(n.list, c)
			}
		}
		if s[i] == '"' {
			j := i + 1
			for j < len(s) && s[j] != '"' {
				j++
			}
			a := s[i:min(j+1, len(s))]
			i = min(j+1, len(s))
			return &sx{atom: a}
		}
		if s[i] == '|' {
			j := i + 1
			for j < len(s) && s[j] != '|' {
				j++
			}
			a := s[i:min(j+1, len(s))]
			i = min(j+1, len(s))
			return &sx{atom: a}
		}
		j := i
		for j < len(s) && !strings.ContainsRune(" \n\t\r()", rune(s[j])) {
			j++
		}
		a := s[i:j]
		i = j
		return &sx{atom: a}
	}
	for {
		skip()
		if i >= len(s) {
			return out
		}
		if s[i] == ')' {
			i++
			continue
		}
		n := parse()
		if n == nil {
			return out
		}
		out = append(out, n)
	}
}

func (n *sx) String() string {
	if n.list == nil {
		return n.atom
	}
	var parts []string
	for _, c := range n.list {
		parts = append(parts, c.String())
	}
	return "(" + strings.Join(parts, " ") + ")"
}

func sxInt(n *sx) (*big.Int, bool) {
	if n.list == nil {
		v, ok := new(big.Int).SetString(n.atom, 10)
		return v, ok
	}
	if len(n.list) == 2 && n.list[0].atom == "-" {
		v, ok := sxInt(n.list[1])
		if ok {
			return new(big.Int).Neg(v), true
		}
	}
	return nil, false
}

func sxFloat(n *sx) (float64, bool) {
	s := n.String()
	switch {
	case strings.HasPrefix(s, "(_ +zero"):
		return 0, true
	case strings.HasPrefix(s, "(_ -zero"):
		return math.Copysign(0, -1), true
	case strings.HasPrefix(s, "(_ NaN"):
		return math.NaN(), true
	case strings.HasPrefix(s, "(_ +oo"):
		return math.Inf(1), true
	case strings.HasPrefix(s, "(_ -oo"):
		return math.Inf(-1), true
	}
	if n.list != nil && len(n.list) == 4 && n.list[0].atom == "fp" {
		bits := func(a string) (uint64, int) {
			if strings.HasPrefix(a, "#b") {
				v, _ := new(big.Int).SetString(a[2:], 2)
				return v.Uint64(), len(a) - 2
			}
			if strings.HasPrefix(a, "#x") {
				v, _ := new(big.Int).SetString(a[2:], 16)
				return v.Uint64(), 4 * (len(a) - 2)
			}
			return 0, 0
		}
		sg, _ := bits(n.list[1].atom)
		ex, _ := bits(n.list[2].atom)
		mn, _ := bits(n.list[3].atom)
		return math.Float64frombits(sg<<63 | ex<<52 | mn), true
	}
	return 0, false
}

// ---------------------------------------------------------------------------
// Model extraction

type replayArg struct {
	Fields []replayArg `json:"fields,omitempty"`
	Name  string   `json:"name"`
	Type  string   `json:"type"`
	Bytes []int    `json:"bytes,omitempty"`
	Str   *string  `json:"str,omitempty"`
	Int   *string  `json:"int,omitempty"`
	Float *string  `json:"float,omitempty"` // hex bits
	Bool  *bool    `json:"bool,omitempty"`
	Cap   int      `json:"cap,omitempty"`
	Nil   bool     `json:"nil,omitempty"`
}

func getValues(script string, exprs []string, timeoutS int) (map[string]*sx, bool) {
	if len(exprs) == 0 {
		return map[string]*sx{}, true
	}
	s := strings.Replace(script, "(get-model)\n", "", 1)
	s += "(get-value (" + strings.Join(exprs, " ") + "))\n"
	for _, sv := range []solverSpec{solvers[0], solvers[1]} {
		r := runSolver(context.Background(), sv, s, timeoutS)
		if r.verdict != "sat" {
			continue
		}
		rest := r.output[strings.Index(r.output, "sat")+3:]
		parsed := parseSx(rest)
		if len(parsed) == 0 {
			continue
		}
		out := map[string]*sx{}
		for i, pair := range parsed[0].list {
			if len(pair.list) == 2 && i < len(exprs) {
				out[exprs[i]] = pair.list[1]
			}
		}
		return out, true
	}
	return nil, false
}

// reifyParams turns the model of a failed obligation into concrete arguments.
func reifyParams(res *FuncResult, o *Obligation) ([]replayArg, string) {
	script := o.Script
	// insert size bounds before (check-sat)
	var bounds []string
	type pinfo struct {
		name string
		tv   TV
		kind string
	}
	var ps []pinfo
	type leaf struct {
		name string
		tv   TV
	}
	var leaves []leaf
	var flatten func(name string, tv TV) bool
	flatten = func(name string, tv TV) bool {
		if st, ok := tv.Ty.Underlying().(*types.Struct); ok {
			dt := datatypes[tv.T.Sort]
			if dt == nil {
				return false
			}
			for i := 0; i < st.NumFields(); i++ {
				if !flatten(name+"."+st.Field(i).Name(), TV{Sel(dt.fields[i], tv.T), st.Field(i).Type()}) {
					return false
				}
			}
			return true
		}
		leaves = append(leaves, leaf{name, tv})
		return true
	}
	for _, p := range res.Params {
		if !flatten(p.Name, p.V) {
			return nil, "parameter " + p.Name + " is not reifiable"
		}
	}
	for _, p := range leaves {
		tv := p.tv
		p := struct {
			Name string
			V    TV
		}{p.name, p.tv}
		switch u := tv.Ty.Underlying().(type) {
		case *types.Slice:
			if b, ok := u.Elem().Underlying().(*types.Basic); ok && b.Kind() == types.Uint8 {
				ps = append(ps, pinfo{p.Name, tv, "bytes"})
				bounds = append(bounds, fmt.Sprintf("(assert (<= (s-len %s) 40))", tv.T))
				continue
			}
			return nil, "parameter " + p.Name + " of type " + tv.Ty.String() + " is not reifiable"
		case *types.Basic:
			switch {
			case u.Info()&types.IsString != 0:
				ps = append(ps, pinfo{p.Name, tv, "string"})
				bounds = append(bounds, fmt.Sprintf("(assert (<= (slen %s) 40))", tv.T))
			case u.Info()&types.IsInteger != 0 && tv.T.Sort == SInt:
				ps = append(ps, pinfo{p.Name, tv, "int"})
			case u.Info()&types.IsFloat != 0 && tv.T.Sort == SF64:
				ps = append(ps, pinfo{p.Name, tv, "float"})
			case u.Info()&types.IsBoolean != 0:
				ps = append(ps, pinfo{p.Name, tv, "bool"})
			default:
				return nil, "parameter " + p.Name + " of type " + tv.Ty.String() + " is not reifiable"
			}
		default:
			return nil, "parameter " + p.Name + " of type " + tv.Ty.String() + " is not reifiable"
		}
	}
	i := strings.LastIndex(script, "(check-sat)")
	bounded := script[:i] + strings.Join(bounds, "\n") + "\n" + script[i:]
	// phase 1: scalars and lengths
	var exprs []string
	for _, p := range ps {
		switch p.kind {
		case "bytes":
			exprs = append(exprs, fmt.Sprintf("(s-len %s)", p.tv.T), fmt.Sprintf("(s-cap %s)", p.tv.T), fmt.Sprintf("(s-ref %s)", p.tv.T))
		case "string":
			exprs = append(exprs, fmt.Sprintf("(slen %s)", p.tv.T))
		default:
			exprs = append(exprs, p.tv.T.String())
		}
	}
	vals, ok := getValues(bounded, exprs, 10)
	if !ok {
		return nil, "no model with inputs of length <= 40 (solver did not return sat under the size bound)"
	}
	// phase 2: pin the lengths, ask for elements
	var pins, elems []string
	lens := map[string]int{}
	for _, p := range ps {
		switch p.kind {
		case "bytes":
			n, _ := sxInt(vals[fmt.Sprintf("(s-len %s)", p.tv.T)])
			if n == nil {
				return nil, "could not read length of " + p.name
			}
			lens[p.name] = int(n.Int64())
			pins = append(pins, fmt.Sprintf("(assert (= (s-len %s) %d))", p.tv.T, n.Int64()))
			for j := 0; j < int(n.Int64()); j++ {
				elems = append(elems, fmt.Sprintf("(select (select H_uint8 (s-ref %s)) (+ (s-off %s) %d))", p.tv.T, p.tv.T, j))
			}
		case "string":
			n, _ := sxInt(vals[fmt.Sprintf("(slen %s)", p.tv.T)])
			if n == nil {
				return nil, "could not read length of " + p.name
			}
			lens[p.name] = int(n.Int64())
			pins = append(pins, fmt.Sprintf("(assert (= (slen %s) %d))", p.tv.T, n.Int64()))
			for j := 0; j < int(n.Int64()); j++ {
				elems = append(elems, fmt.Sprintf("(sat %s %d)", p.tv.T, j))
			}
		}
	}
	var evals map[string]*sx
	if len(elems) > 0 {
		if !strings.Contains(bounded, "(declare-const H_uint8 ") && strings.Contains(strings.Join(elems, ""), "H_uint8") {
			bounded = strings.Replace(bounded, "(declare-const alloc0 Int)", "(declare-const alloc0 Int)\n(declare-const H_uint8 (Array Int (Array Int Int)))", 1)
		}
		j := strings.LastIndex(bounded, "(check-sat)")
		pinned := bounded[:j] + strings.Join(pins, "\n") + "\n" + bounded[j:]
		// re-ask scalars too, since pinning may move them
		evals, ok = getValues(pinned, append(append([]string{}, exprs...), elems...), 10)
		if !ok {
			return nil, "no model after pinning lengths"
		}
		vals = evals
	}
	// strings compared with < are modelled through an order-embedding rank, not
	// through their bytes: rebuild strings whose bytewise order matches the ranks
	rankStr := map[string]string{}
	if strings.Contains(script, "(srank ") {
		var rexprs []string
		for _, p := range ps {
			if p.kind == "string" {
				rexprs = append(rexprs, fmt.Sprintf("(srank %s)", p.tv.T))
			}
		}
		if rv, ok := getValues(bounded, rexprs, 10); ok {
			var ranks []*big.Int
			seen := map[string]bool{}
			for _, e := range rexprs {
				if n, ok := sxInt(rv[e]); ok && !seen[n.String()] {
					seen[n.String()] = true
					ranks = append(ranks, n)
				}
			}
			sort.Slice(ranks, func(i, j int) bool { return ranks[i].Cmp(ranks[j]) < 0 })
			next := byte('b')
			for _, n := range ranks {
				if n.Sign() == 0 {
					rankStr[n.String()] = ""
					continue
				}
				rankStr[n.String()] = string([]byte{next})
				next += 2
			}
			for _, p := range ps {
				if p.kind == "string" {
					if n, ok := sxInt(rv[fmt.Sprintf("(srank %s)", p.tv.T)]); ok {
						rankStr["@"+p.name] = rankStr[n.String()]
						rankStr["?"+p.name] = "y"
					}
				}
			}
		}
	}
	var out []replayArg
	for _, p := range ps {
		a := replayArg{Name: p.name, Type: p.tv.Ty.String()}
		if p.kind == "string" && rankStr["?"+p.name] == "y" {
			s := rankStr["@"+p.name]
			a.Str = &s
			out = append(out, a)
			continue
		}
		switch p.kind {
		case "bytes":
			n := lens[p.name]
			ref, _ := sxInt(vals[fmt.Sprintf("(s-ref %s)", p.tv.T)])
			if ref != nil && ref.Sign() == 0 {
				a.Nil = true
			}
			cp, _ := sxInt(vals[fmt.Sprintf("(s-cap %s)", p.tv.T)])
			if cp != nil && cp.IsInt64() && cp.Int64() <= 4096 {
				a.Cap = int(cp.Int64())
			} else {
				a.Cap = n
			}
			a.Bytes = []int{}
			for j := 0; j < n; j++ {
				e := fmt.Sprintf("(select (select H_uint8 (s-ref %s)) (+ (s-off %s) %d))", p.tv.T, p.tv.T, j)
				b, _ := sxInt(vals[e])
				if b == nil {
					b = big.NewInt(0)
				}
				a.Bytes = append(a.Bytes, int(b.Int64()&255))
			}
		case "string":
			n := lens[p.name]
			bs := make([]byte, n)
			for j := 0; j < n; j++ {
				b, _ := sxInt(vals[fmt.Sprintf("(sat %s %d)", p.tv.T, j)])
				if b != nil {
					bs[j] = byte(b.Int64())
				}
			}
			s := string(bs)
			a.Str = &s
			for _, b := range bs {
				a.Bytes = append(a.Bytes, int(b))
			}
		case "int":
			n, _ := sxInt(vals[p.tv.T.String()])
			if n == nil {
				n = big.NewInt(0)
			}
			s := n.String()
			a.Int = &s
		case "float":
			f, _ := sxFloat(vals[p.tv.T.String()])
			s := fmt.Sprintf("%#x", math.Float64bits(f))
			a.Float = &s
		case "bool":
			b := vals[p.tv.T.String()].String() == "true"
			a.Bool = &b
		}
		out = append(out, a)
	}
	return out, ""
}

// ---------------------------------------------------------------------------
// Replay against the real code

// replayObligation writes the replay file for a failed obligation and, when the
// solver produced a model whose inputs can be reified, runs the property's
// oracle driver on the real code.  It reports whether a failing input was found.
func replayObligation(v *Verifier, res *FuncResult, o *Obligation, prop, rp, verifDir string) bool {
	rec := map[string]any{
		"property":   prop,
		"obligation": shortKey(o.Label),
		"kind":       o.Kind,
		"function":   shortKey(res.Key),
		"status":     o.Status,
		"solver":     o.Solver,
		"path":       o.Path,
	}
	if o.Pos.IsValid() {
		rec["position"] = fmt.Sprintf("%s:%d:%d", o.Pos.Filename, o.Pos.Line, o.Pos.Column)
	}
	if o.Clause != nil {
		rec["clause"] = o.Clause.Kind + " " + o.Clause.Text
		rec["clause_at"] = fmt.Sprintf("%s:%d", o.Clause.File, o.Clause.Line)
	}
	out := o.Output
	if len(out) > 6000 {
		out = out[:6000] + "\n…(truncated)"
	}
	rec["solver_output"] = out
	scriptPath := strings.TrimSuffix(rp, ".json") + ".smt2"
	os.WriteFile(scriptPath, []byte(o.Script), 0o644)
	rec["script"] = scriptPath
	defer func() { writeJSON(rp, rec) }()
	if o.Status != "failed" {
		// The solvers gave no model (quantified hypotheses).  For a function without
		// preconditions, look for a *candidate* input instead: drop the quantified
		// hypotheses, ask for a model of what is left, and let the replay driver's
		// independent oracle decide on the real code whether it is a failing input.
		if c := v.cs.Contracts[res.Key]; c != nil && len(c.Requires) == 0 && o.Script != "" && o.Kind != "frame" {
			var keep []string
			for _, line := range strings.Split(o.Script, "\n") {
				if strings.HasPrefix(line, "(assert ") && (strings.Contains(line, "(forall ") || strings.Contains(line, "(exists ")) && !strings.HasPrefix(line, "(assert (not ") {
					continue
				}
				keep = append(keep, line)
			}
			weak := strings.Join(keep, "\n")
			r := runSolver(context.Background(), solvers[0], weak, 8)
			if r.verdict == "sat" {
				o2 := *o
				o2.Status, o2.Script, o2.Output, o2.Model = "failed", weak, r.output, r.output
				rec["candidate_search"] = "model of the obligation with its quantified hypotheses dropped; confirmed or rejected by the replay oracle on the real code"
				if args, _ := reifyParams(res, &o2); args != nil {
					if ok := runReplayDriver(v, res, &o2, args, rp, verifDir, rec); ok {
						return true
					}
				}
			}
		}
		rec["replay"] = "the solver returned no counterexample (" + o.Status + "); the obligation was discharged on the unchanged tree and is not any more"
		return false
	}
	args, why := reifyParams(res, o)
	if args == nil {
		rec["replay"] = "counterexample not replayed: " + why
		return false
	}
	return runReplayDriver(v, res, o, args, rp, verifDir, rec)
}

// runReplayDriver runs the package's replay driver on concrete arguments and
// reports whether the real code was seen to fail.
func runReplayDriver(v *Verifier, res *FuncResult, o *Obligation, args any, rp, verifDir string, rec map[string]any) bool {
	found := false
	rec["inputs"] = args
	fn := v.funcs[res.Key]
	if fn == nil || fn.Pkg == nil {
		return false
	}
	pkgPath := fn.Pkg.Pkg.Path()
	rel := strings.TrimPrefix(pkgPath, "golang.org/x/perf/")
	driver := filepath.Join(verifDir, "replay", sanitize(rel)+"_test.go")
	if _, err := os.Stat(driver); err != nil {
		rec["replay"] = "no replay driver for package " + rel
		return false
	}
	inPath := strings.TrimSuffix(rp, ".json") + ".input.json"
	writeJSON(inPath, map[string]any{"fn": shortKey(res.Key), "obligation": shortKey(o.Label), "args": args})
	ov := strings.TrimSuffix(rp, ".json") + ".overlay.json"
	writeJSON(ov, map[string]any{"Replace": map[string]string{filepath.Join(v.repo, rel, "zz_verif_replay_test.go"): driver}})
	ctx, cancel := context.WithTimeout(context.Background(), 120*time.Second)
	defer cancel()
	cmd := exec.CommandContext(ctx, "go", "test", "-overlay", ov, "-vet=off", "-count=1", "-timeout", "60s", "-run", "^TestVerifReplay$", "./"+rel)
	cmd.Dir = v.repo
	cmd.Env = append(os.Environ(), "VERIF_REPLAY_INPUT="+inPath, "GOFLAGS=-mod=mod", "GOPROXY=off", "GOSUMDB=off", "GOTOOLCHAIN=local")
	outb, err := cmd.CombinedOutput()
	text := string(outb)
	if len(text) > 4000 {
		text = text[:4000]
	}
	rec["replay_cmd"] = fmt.Sprintf("cd %s && VERIF_REPLAY_INPUT=%s go test -overlay %s -vet=off -count=1 -timeout 60s -run '^TestVerifReplay$' ./%s", v.repo, inPath, ov, rel)
	rec["replay_output"] = text
	if err != nil && strings.Contains(text, "REPLAY-FAIL") {
		rec["replay"] = "counterexample replayed on the real code: the property oracle fails on this input"
		found = true
	} else if strings.Contains(text, "NO-ORACLE") {
		rec["replay"] = "no oracle for this function in the replay driver"
	} else if err != nil {
		rec["replay"] = "replay run failed for another reason (see replay_output)"
	} else {
		rec["replay"] = "the property oracle passes on the model's input: the failed obligation is stronger than the oracle, or the counterexample depends on abstracted parts"
	}
	return found
}

var _ = json.Marshal

// runDriver runs a test of the replay driver of a package against the real code.
func runDriver(v *Verifier, verifDir, rel, test string, env []string, tag string, timeout time.Duration) (string, bool, error) {
	driver := filepath.Join(verifDir, "replay", sanitize(rel)+"_test.go")
	if _, err := os.Stat(driver); err != nil {
		return "", false, fmt.Errorf("no driver for package %s", rel)
	}
	ov := filepath.Join(verifDir, "evidence", "replay", tag+".overlay.json")
	writeJSON(ov, map[string]any{"Replace": map[string]string{filepath.Join(v.repo, rel, "zz_verif_replay_test.go"): driver}})
	ctx, cancel := context.WithTimeout(context.Background(), timeout+30*time.Second)
	defer cancel()
	cmd := exec.CommandContext(ctx, "go", "test", "-overlay", ov, "-vet=off", "-count=1", "-timeout", fmt.Sprintf("%ds", int(timeout.Seconds())), "-run", "^"+test+"$", "-v", "./"+rel)
	cmd.Dir = v.repo
	cmd.Env = append(append(os.Environ(), "GOFLAGS=-mod=mod", "GOPROXY=off", "GOSUMDB=off", "GOTOOLCHAIN=local"), env...)
	outb, err := cmd.CombinedOutput()
	return string(outb), err != nil, nil
}

type boundedSpec struct {
	Rel  string // package directory relative to the repository root
	Name string
	What string
}

// runBounded runs the bounded stand-ins of a property.  They are reported under
// coverage.bounded and are never counted as obligations of the proof.
func runBounded(v *Verifier, ps *PropSpec, tier string, seed int, verifDir string, lines *[]string, violations *int, nReplay *int, known []KnownFinding, knownLines *[]string) map[string]any {
	if len(ps.BoundedChecks) == 0 {
		return nil
	}
	out := map[string]any{}
	for _, b := range ps.BoundedChecks {
		tag := fmt.Sprintf("%s-bounded-%s", ps.ID, b.Name)
		to := 5 * time.Minute
		if tier == "thorough" {
			to = 40 * time.Minute
		}
		var classes []string
		for _, kf := range known {
			if kf.Property == ps.ID && kf.Status == "known" && kf.Bounded == b.Name && kf.Class != "" {
				classes = append(classes, kf.Class)
			}
		}
		text, failed, err := runDriver(v, verifDir, b.Rel, "TestVerifBounded", []string{"VERIF_BOUNDED=" + b.Name, "VERIF_TIER=" + tier, fmt.Sprintf("VERIF_SEED=%d", seed), "VERIF_KNOWN_CLASSES=" + strings.Join(classes, ",")}, tag, to)
		rec := map[string]any{"what": b.What, "label": "bounded (not counted as proved)", "package": b.Rel}
		if err != nil {
			rec["error"] = err.Error()
			out[b.Name] = rec
			continue
		}
		for _, l := range strings.Split(text, "\n") {
			if i := strings.Index(l, "KNOWN-CLASS "); i >= 0 {
				// "KNOWN-CLASS <class> <count> <example…>": failures inside a listed class of inputs
				f := strings.Fields(l[i+len("KNOWN-CLASS "):])
				if len(f) >= 2 && f[1] != "0" {
					for _, kf := range known {
						if kf.Property == ps.ID && kf.Status == "known" && kf.Bounded == b.Name && kf.Class == f[0] {
							*knownLines = append(*knownLines, fmt.Sprintf("KNOWN-FINDING: property=%s %s (bounded:%s, class %s: %s cases, e.g. %s)", ps.ID, kf.What, b.Name, kf.Class, f[1], strings.Join(f[2:], " ")))
							rec["known_finding_class_"+kf.Class] = f[1]
						}
					}
				}
			}
			if i := strings.Index(l, "BOUNDED-RESULT "); i >= 0 {
				var r map[string]any
				if json.Unmarshal([]byte(l[i+len("BOUNDED-RESULT "):]), &r) == nil {
					for k, val := range r {
						rec[k] = val
					}
				}
			}
		}
		if failed {
			*violations++
			*nReplay++
			rp := filepath.Join(verifDir, "evidence", "replay", fmt.Sprintf("%s-%d.json", ps.ID, *nReplay))
			var fails []string
			for _, l := range strings.Split(text, "\n") {
				if strings.Contains(l, "REPLAY-FAIL") && len(fails) < 20 {
					fails = append(fails, strings.TrimSpace(l))
				}
			}
			tail := text
			if len(tail) > 4000 {
				tail = tail[len(tail)-4000:]
			}
			writeJSON(rp, map[string]any{"property": ps.ID, "obligation": "bounded:" + b.Name, "status": "bounded check failed on the real code", "failures": fails, "output_tail": tail,
				"replay_cmd": fmt.Sprintf("cd %s && VERIF_BOUNDED=%s VERIF_TIER=%s VERIF_SEED=%d go test -overlay %s -vet=off -count=1 -run '^TestVerifBounded$' -v ./%s", v.repo, b.Name, tier, seed, filepath.Join(verifDir, "evidence", "replay", tag+".overlay.json"), b.Rel)})
			suffix := ""
			if len(fails) == 0 {
				suffix = " no-failing-input-found"
			}
			*lines = append(*lines, fmt.Sprintf("VIOLATION property=%s replay=%s obligation=bounded:%s%s", ps.ID, rp, b.Name, suffix))
			rec["failed"] = true
		}
		out[b.Name] = rec
	}
	return out
}

// rerunReplay re-executes the command recorded in a replay file.
func rerunReplay(path string) int {
	data, err := os.ReadFile(path)
	if err != nil {
		fmt.Fprintln(os.Stderr, err)
		return 2
	}
	var rec map[string]any
	if err := json.Unmarshal(data, &rec); err != nil {
		fmt.Fprintln(os.Stderr, err)
		return 2
	}
	fmt.Printf("obligation: %v\nstatus: %v\n", rec["obligation"], rec["status"])
	cmdline, _ := rec["replay_cmd"].(string)
	if cmdline == "" {
		fmt.Println("no replay command recorded:", rec["replay"])
		if s, ok := rec["script"].(string); ok {
			fmt.Println("solver script:", s)
		}
		return 0
	}
	cmd := exec.Command("sh", "-c", cmdline)
	cmd.Env = append(os.Environ(), "GOFLAGS=-mod=mod", "GOPROXY=off", "GOSUMDB=off", "GOTOOLCHAIN=local")
	out, err := cmd.CombinedOutput()
	fmt.Print(string(out))
	if err != nil {
		return 1
	}
	return 0
}
