package main

import (
	"fmt"
	"go/ast"
	"go/parser"
	"go/token"
	"os"
	"regexp"
	"strings"
)

// ---------------------------------------------------------------------------
// Spec expression AST

type SExpr interface{ sexpr() }

type (
	SIdent struct{ Name string }
	SLit   struct {
		Kind string // int, char, string, float, bool, nil
		Val  string
	}
	SUnary struct {
		Op string
		X  SExpr
	}
	SBinary struct {
		Op   string
		X, Y SExpr
	}
	SCall struct {
		Fun  string
		Args []SExpr
	}
	SIndex struct{ X, I SExpr }
	SSliceE struct {
		X      SExpr
		Lo, Hi SExpr // may be nil
	}
	SField struct {
		X    SExpr
		Name string
	}
	SVar struct {
		Name string
		Type string
	}
	SQuant struct {
		All  bool
		Vars []SVar
		Body SExpr
		Trig []SExpr // optional explicit trigger: forall i int :: {t1, t2} body
		// Witness: for `exists v T witness e :: body` — when the clause is being
		// proved for the function's own body, v is instantiated with e (which may
		// name locals at the return point); callers only learn the existential.
		Witness    []SExpr
		UseWitness bool
	}
	SCond struct{ C, A, B SExpr }
)

func (*SIdent) sexpr()  {}
func (*SLit) sexpr()    {}
func (*SUnary) sexpr()  {}
func (*SBinary) sexpr() {}
func (*SCall) sexpr()   {}
func (*SIndex) sexpr()  {}
func (*SSliceE) sexpr() {}
func (*SField) sexpr()  {}
func (*SQuant) sexpr()  {}
func (*SCond) sexpr()   {}

// ---------------------------------------------------------------------------
// Lexer

type stok struct {
	kind string // ident, int, float, char, string, op, eof
	text string
	pos  int
}

var specOps = []string{
	"<==>", "==>", "===", "!==", "::", "&&", "||", "==", "!=", "<=", ">=", "<<", ">>", "&^",
	"+", "-", "*", "/", "%", "<", ">", "!", "(", ")", "[", "]", ",", ".", ":", "?", "&", "|", "^", "{", "}",
}

func lexSpec(s string) ([]stok, error) {
	var toks []stok
	i := 0
	for i < len(s) {
		c := s[i]
		switch {
		case c == ' ' || c == '\t' || c == '\n' || c == '\r':
			i++
		case c == '_' || c >= 'a' && c <= 'z' || c >= 'A' && c <= 'Z':
			j := i
			for j < len(s) && (s[j] == '_' || s[j] == '$' || s[j] >= 'a' && s[j] <= 'z' || s[j] >= 'A' && s[j] <= 'Z' || s[j] >= '0' && s[j] <= '9') {
				j++
			}
			toks = append(toks, stok{"ident", s[i:j], i})
			i = j
		case c >= '0' && c <= '9':
			j := i
			isFloat := false
			if c == '0' && j+1 < len(s) && (s[j+1] == 'x' || s[j+1] == 'X') {
				j += 2
				for j < len(s) && strings.ContainsRune("0123456789abcdefABCDEF_", rune(s[j])) {
					j++
				}
			} else {
				for j < len(s) && (s[j] >= '0' && s[j] <= '9' || s[j] == '_') {
					j++
				}
				if j < len(s) && s[j] == '.' && j+1 < len(s) && s[j+1] >= '0' && s[j+1] <= '9' {
					isFloat = true
					j++
					for j < len(s) && s[j] >= '0' && s[j] <= '9' {
						j++
					}
				}
				if j < len(s) && (s[j] == 'e' || s[j] == 'E') {
					k := j + 1
					if k < len(s) && (s[k] == '+' || s[k] == '-') {
						k++
					}
					if k < len(s) && s[k] >= '0' && s[k] <= '9' {
						isFloat = true
						for k < len(s) && s[k] >= '0' && s[k] <= '9' {
							k++
						}
						j = k
					}
				}
			}
			kind := "int"
			if isFloat {
				kind = "float"
			}
			toks = append(toks, stok{kind, strings.ReplaceAll(s[i:j], "_", ""), i})
			i = j
		case c == '\'':
			j := i + 1
			for j < len(s) && s[j] != '\'' {
				if s[j] == '\\' {
					j++
				}
				j++
			}
			if j >= len(s) {
				return nil, fmt.Errorf("unterminated char literal at %d in %q", i, s)
			}
			toks = append(toks, stok{"char", s[i : j+1], i})
			i = j + 1
		case c == '"':
			j := i + 1
			for j < len(s) && s[j] != '"' {
				if s[j] == '\\' {
					j++
				}
				j++
			}
			if j >= len(s) {
				return nil, fmt.Errorf("unterminated string literal at %d in %q", i, s)
			}
			toks = append(toks, stok{"string", s[i : j+1], i})
			i = j + 1
		default:
			matched := false
			for _, op := range specOps {
				if strings.HasPrefix(s[i:], op) {
					toks = append(toks, stok{"op", op, i})
					i += len(op)
					matched = true
					break
				}
			}
			if !matched {
				return nil, fmt.Errorf("unexpected character %q at %d in %q", c, i, s)
			}
		}
	}
	toks = append(toks, stok{"eof", "", len(s)})
	return toks, nil
}

// ---------------------------------------------------------------------------
// Parser

type sparser struct {
	toks []stok
	p    int
	src  string
}

func parseSpecExpr(s string) (e SExpr, err error) {
	toks, err := lexSpec(s)
	if err != nil {
		return nil, err
	}
	p := &sparser{toks: toks, src: s}
	defer func() {
		if r := recover(); r != nil {
			if pe, ok := r.(specParseError); ok {
				err = fmt.Errorf("%s in %q", string(pe), s)
				return
			}
			panic(r)
		}
	}()
	e = p.expr()
	if p.peek().kind != "eof" {
		p.fail("unexpected %q", p.peek().text)
	}
	return e, nil
}

type specParseError string

func (p *sparser) fail(f string, args ...any) {
	panic(specParseError(fmt.Sprintf("at %d: ", p.peek().pos) + fmt.Sprintf(f, args...)))
}
func (p *sparser) peek() stok { return p.toks[p.p] }
func (p *sparser) next() stok  { t := p.toks[p.p]; p.p++; return t }
func (p *sparser) isOp(op string) bool {
	t := p.peek()
	return t.kind == "op" && t.text == op
}
func (p *sparser) accept(op string) bool {
	if p.isOp(op) {
		p.p++
		return true
	}
	return false
}
func (p *sparser) expect(op string) {
	if !p.accept(op) {
		p.fail("expected %q, found %q", op, p.peek().text)
	}
}

func (p *sparser) expr() SExpr { return p.iff() }

func (p *sparser) iff() SExpr {
	x := p.implies()
	for p.accept("<==>") {
		y := p.implies()
		x = &SBinary{"<==>", x, y}
	}
	return x
}

func (p *sparser) implies() SExpr {
	x := p.cond()
	if p.accept("==>") {
		y := p.implies()
		return &SBinary{"==>", x, y}
	}
	return x
}

func (p *sparser) cond() SExpr {
	c := p.binary(1)
	if p.accept("?") {
		a := p.cond()
		p.expect(":")
		b := p.cond()
		return &SCond{c, a, b}
	}
	return c
}

var binPrec = map[string]int{
	"||": 1, "&&": 2,
	"==": 3, "!=": 3, "<": 3, "<=": 3, ">": 3, ">=": 3, "===": 3, "!==": 3,
	"+": 4, "-": 4, "|": 4, "^": 4,
	"*": 5, "/": 5, "%": 5, "<<": 5, ">>": 5, "&": 5, "&^": 5,
}

func (p *sparser) binary(minPrec int) SExpr {
	x := p.unary()
	var lastCmpRight SExpr // for chained comparisons a <= b < c
	for {
		t := p.peek()
		if t.kind != "op" {
			return x
		}
		prec, ok := binPrec[t.text]
		if !ok || prec < minPrec {
			return x
		}
		p.next()
		y := p.binary(prec + 1)
		if prec == 3 && lastCmpRight != nil {
			x = &SBinary{"&&", x, &SBinary{t.text, lastCmpRight, y}}
		} else {
			x = &SBinary{t.text, x, y}
		}
		if prec == 3 {
			lastCmpRight = y
		} else {
			lastCmpRight = nil
		}
	}
}

func (p *sparser) unary() SExpr {
	if p.accept("!") {
		return &SUnary{"!", p.unary()}
	}
	if p.accept("-") {
		return &SUnary{"-", p.unary()}
	}
	if p.accept("^") {
		return &SUnary{"^", p.unary()}
	}
	if p.accept("*") {
		return &SUnary{"*", p.unary()}
	}
	return p.postfix(p.primary())
}

func (p *sparser) primary() SExpr {
	t := p.next()
	switch t.kind {
	case "int", "float", "char", "string":
		return &SLit{t.kind, t.text}
	case "ident":
		switch t.text {
		case "true", "false":
			return &SLit{"bool", t.text}
		case "nil":
			return &SLit{"nil", "nil"}
		case "forall", "exists":
			var vars []SVar
			var witness []SExpr
			for {
				var names []string
				names = append(names, p.identName())
				for p.accept(",") {
					names = append(names, p.identName())
				}
				ty := p.typeName()
				for _, n := range names {
					vars = append(vars, SVar{n, ty})
				}
				if p.isIdent("witness") {
					p.next()
					witness = append(witness, p.expr())
				}
				if p.accept("::") {
					break
				}
				p.expect(",")
			}
			var trig []SExpr
			if p.accept("{") {
				for {
					trig = append(trig, p.expr())
					if p.accept("}") {
						break
					}
					p.expect(",")
				}
			}
			body := p.expr()
			if len(witness) > 0 && (t.text == "forall" || len(witness) != len(vars)) {
				p.fail("witness needs exists and one expression per variable")
			}
			return &SQuant{All: t.text == "forall", Vars: vars, Body: body, Trig: trig, Witness: witness}
		}
		return &SIdent{t.text}
	case "op":
		if t.text == "(" {
			e := p.expr()
			p.expect(")")
			return e
		}
	}
	p.p--
	p.fail("unexpected %q", t.text)
	return nil
}

func (p *sparser) identName() string {
	t := p.next()
	if t.kind != "ident" {
		p.p--
		p.fail("expected identifier, found %q", t.text)
	}
	return t.text
}

// typeName parses a (very small) type syntax: ident, pkg.ident, []T, *T.
func (p *sparser) typeName() string {
	if p.accept("[") {
		p.expect("]")
		return "[]" + p.typeName()
	}
	if p.accept("*") {
		return "*" + p.typeName()
	}
	if p.isIdent("struct") {
		p.next()
		p.expect("{")
		p.expect("}")
		return "struct{}"
	}
	if p.isIdent("map") {
		p.next()
		p.expect("[")
		k := p.typeName()
		p.expect("]")
		return "map[" + k + "]" + p.typeName()
	}
	n := p.identName()
	if p.isOp(".") {
		p.next()
		n += "." + p.identName()
	}
	return n
}

func (p *sparser) postfix(x SExpr) SExpr {
	for {
		switch {
		case p.accept("."):
			name := p.identName()
			// pkg-qualified call: ident.ident(
			if id, ok := x.(*SIdent); ok && p.isOp("(") {
				p.next()
				args := p.args()
				x = &SCall{Fun: id.Name + "." + name, Args: args}
				continue
			}
			if p.isOp("(") {
				// method call on a value: x.M(args) — interface methods only
				p.next()
				x = &SCall{Fun: "." + name, Args: append([]SExpr{x}, p.args()...)}
				continue
			}
			x = &SField{x, name}
		case p.accept("("):
			id, ok := x.(*SIdent)
			if !ok {
				p.fail("call of non-identifier")
			}
			if id.Name == "heap" {
				// heap(T): the argument is a type
				tn := p.typeName()
				p.expect(")")
				x = &SCall{Fun: "heap", Args: []SExpr{&SIdent{Name: tn}}}
				continue
			}
			x = &SCall{Fun: id.Name, Args: p.args()}
		case p.accept("["):
			var lo, hi SExpr
			if p.accept(":") {
				if !p.isOp("]") {
					hi = p.expr()
				}
				p.expect("]")
				x = &SSliceE{x, nil, hi}
				continue
			}
			lo = p.expr()
			if p.accept(":") {
				if !p.isOp("]") {
					hi = p.expr()
				}
				p.expect("]")
				x = &SSliceE{x, lo, hi}
				continue
			}
			p.expect("]")
			x = &SIndex{x, lo}
		default:
			return x
		}
	}
}

// Package-qualified spec calls are limited to this set of names so that
// x.f(…) on a value is never mistaken for one.
var specPkgNames = map[string]bool{"math": true, "bytes": true, "strings": true, "utf8": true, "unicode": true, "strconv": true, "bytesconv": true, "benchunit": true, "sort": true, "stats": true, "fmt": true, "io": true}

func isPkgName(s string) bool { return specPkgNames[s] }

func (p *sparser) args() []SExpr {
	var args []SExpr
	if p.accept(")") {
		return args
	}
	for {
		args = append(args, p.expr())
		if p.accept(")") {
			return args
		}
		p.expect(",")
	}
}

// ---------------------------------------------------------------------------
// Contract files

type Clause struct {
	Kind string // requires, ensures, invariant, decreases, modifies, assert
	Text string
	Expr SExpr
	Exprs []SExpr // modifies: one per comma-separated location
	Line int
	File string
	Name string // label: e.g. "ensures#2"
}

type LoopSpec struct {
	Ordinal    int
	Invariants []*Clause
	Decreases  *Clause
}

type Contract struct {
	Key       string // pkgpath.Recv.name
	Header    string
	Params    []string // names as written in the header (receiver first when present)
	Results   []string
	Requires  []*Clause
	Ensures   []*Clause
	Modifies  []*Clause
	Loops     map[int]*LoopSpec
	Inline    bool
	Trusted   bool   // body not verified; contract assumed (listed)
	Lemma     bool   // ghost client function carrying a property statement
	Props     []string // property ids this contract serves
	File      string
	Line      int
	NoOverflow bool // do not emit signed-overflow obligations for this function
	Opts      map[string]string
}

type SpecFunc struct {
	Name   string
	Params []SVar
	Result string
	Body   SExpr
	Rec    bool
	Ghost  bool // uninterpreted
	Text   string
	File   string
	Line   int
	PkgPath string
}

// GlobalFact is an assumed fact about package-level variables after
// initialisation (only allowed in /verif/lib; always listed as trusted).
type GlobalFact struct {
	PkgPath string
	Clause  *Clause
}

type ContractSet struct {
	Contracts map[string]*Contract
	Funcs     map[string]*SpecFunc
	Files     []string
	Globals   []*GlobalFact
	FuncTypes map[string]*Contract // contracts of named function types: pkgpath.TypeName
}

func NewContractSet() *ContractSet {
	return &ContractSet{Contracts: map[string]*Contract{}, Funcs: map[string]*SpecFunc{}, FuncTypes: map[string]*Contract{}}
}

var headerRe = regexp.MustCompile(`^func\s*(\([^)]*\))?\s*([A-Za-z0-9_.$/\-]+)\s*(\(.*)$`)

// parseHeader extracts receiver type name, function name and parameter/result names.
func parseHeader(h string) (recv, name string, params, results []string, err error) {
	m := headerRe.FindStringSubmatch(h)
	if m == nil {
		return "", "", nil, nil, fmt.Errorf("cannot parse contract header %q", h)
	}
	name = m[2]
	src := "package p\nfunc " + m[1] + " X" + m[3]
	fset := token.NewFileSet()
	f, perr := parser.ParseFile(fset, "h.go", src, 0)
	if perr != nil {
		return "", "", nil, nil, fmt.Errorf("cannot parse contract header %q: %v", h, perr)
	}
	fd := f.Decls[0].(*ast.FuncDecl)
	if fd.Recv != nil && len(fd.Recv.List) == 1 {
		fld := fd.Recv.List[0]
		t := fld.Type
		if st, ok := t.(*ast.StarExpr); ok {
			t = st.X
		}
		if id, ok := t.(*ast.Ident); ok {
			recv = id.Name
		}
		if len(fld.Names) == 1 {
			params = append(params, fld.Names[0].Name)
		} else {
			params = append(params, "_recv")
		}
	}
	for _, fld := range fd.Type.Params.List {
		if len(fld.Names) == 0 {
			params = append(params, "_")
		}
		for _, n := range fld.Names {
			params = append(params, n.Name)
		}
	}
	if fd.Type.Results != nil {
		for _, fld := range fd.Type.Results.List {
			if len(fld.Names) == 0 {
				results = append(results, "")
			}
			for _, n := range fld.Names {
				results = append(results, n.Name)
			}
		}
	}
	return
}

var clauseKeywords = []string{"requires", "ensures", "invariant", "decreases", "modifies", "loop", "inline", "trusted", "lemma", "props", "nooverflow", "opt"}

// LoadContractFile reads //@ lines of one file. pkgPath qualifies unqualified
// function names ("" for lib specs, whose headers carry a full path).
func (cs *ContractSet) LoadContractFile(path, pkgPath string) error {
	data, err := os.ReadFile(path)
	if err != nil {
		return err
	}
	cs.Files = append(cs.Files, path)
	type line struct {
		text string
		no   int
	}
	var lines []line
	for i, l := range strings.Split(string(data), "\n") {
		t := strings.TrimSpace(l)
		if strings.HasPrefix(t, "//@") {
			lines = append(lines, line{strings.TrimSpace(strings.TrimPrefix(t, "//@")), i + 1})
		} else if len(lines) > 0 && lines[len(lines)-1].text != "" {
			lines = append(lines, line{"", i + 1}) // separator
		}
	}
	var cur *Contract
	var curLoop *LoopSpec
	var lastClause *Clause
	var lastFunc *SpecFunc
	finishClause := func() error {
		if lastClause != nil && lastClause.Kind == "modifies" {
			for _, part := range splitTopLevel(lastClause.Text) {
				e, err := parseSpecExpr(part)
				if err != nil {
					return fmt.Errorf("%s:%d: %v", path, lastClause.Line, err)
				}
				lastClause.Exprs = append(lastClause.Exprs, e)
			}
			lastClause = nil
		}
		if lastClause != nil {
			e, err := parseSpecExpr(lastClause.Text)
			if err != nil {
				return fmt.Errorf("%s:%d: %v", path, lastClause.Line, err)
			}
			lastClause.Expr = e
			lastClause = nil
		}
		if lastFunc != nil {
			e, err := parseSpecExpr(lastFunc.Text)
			if err != nil {
				return fmt.Errorf("%s:%d: %v", path, lastFunc.Line, err)
			}
			lastFunc.Body = e
			lastFunc = nil
		}
		return nil
	}
	for _, l := range lines {
		t := l.text
		if t == "" {
			continue
		}
		if strings.HasPrefix(t, "--") { // comment
			continue
		}
		word := t
		if i := strings.IndexAny(t, " \t:("); i >= 0 {
			word = t[:i]
		}
		rest := strings.TrimSpace(strings.TrimPrefix(t, word))
		switch {
		case word == "func":
			if err := finishClause(); err != nil {
				return err
			}
			recv, name, params, results, err := parseHeader(t)
			if err != nil {
				return fmt.Errorf("%s:%d: %v", path, l.no, err)
			}
			key := name
			if !strings.Contains(name, ".") || pkgPath != "" {
				key = pkgPath + "."
				if recv != "" {
					key += recv + "."
				}
				key += name
			} else if recv != "" {
				// lib spec with receiver: name is "pkg/path.method"; insert recv
				i := strings.LastIndex(name, ".")
				key = name[:i] + "." + recv + "." + name[i+1:]
			}
			cur = &Contract{Key: key, Header: t, Params: params, Results: results, Loops: map[int]*LoopSpec{}, File: path, Line: l.no, Opts: map[string]string{}, Trusted: pkgPath == ""}
			if _, dup := cs.Contracts[key]; dup {
				return fmt.Errorf("%s:%d: duplicate contract for %s", path, l.no, key)
			}
			cs.Contracts[key] = cur
			curLoop = nil
		case word == "ghost":
			if err := finishClause(); err != nil {
				return err
			}
			m := regexp.MustCompile(`^ghost\s+func\s+([A-Za-z0-9_]+)\s*\(([^)]*)\)\s*([A-Za-z0-9_.\[\]*]+)\s*$`).FindStringSubmatch(t)
			if m == nil {
				return fmt.Errorf("%s:%d: cannot parse ghost function %q", path, l.no, t)
			}
			sf := &SpecFunc{Name: m[1], Result: m[3], Ghost: true, File: path, Line: l.no, PkgPath: pkgPath}
			if strings.TrimSpace(m[2]) != "" {
				for _, p := range strings.Split(m[2], ",") {
					fs := strings.Fields(p)
					if len(fs) != 2 {
						return fmt.Errorf("%s:%d: ghost function parameter %q needs a name and a type", path, l.no, p)
					}
					sf.Params = append(sf.Params, SVar{fs[0], fs[1]})
				}
			}
			cs.Funcs[sf.Name] = sf
			cur = nil
		case word == "functype":
			if err := finishClause(); err != nil {
				return err
			}
			_, name, params, results, err := parseHeader("func " + rest)
			if err != nil {
				return fmt.Errorf("%s:%d: %v", path, l.no, err)
			}
			cur = &Contract{Key: pkgPath + "." + name, Header: t, Params: params, Results: results, Loops: map[int]*LoopSpec{}, File: path, Line: l.no, Opts: map[string]string{}}
			cs.FuncTypes[cur.Key] = cur
			curLoop = nil
		case word == "global":
			if err := finishClause(); err != nil {
				return err
			}
			if pkgPath != "" {
				return fmt.Errorf("%s:%d: global facts are only allowed in library spec files", path, l.no)
			}
			i := strings.Index(rest, ":")
			if i < 0 {
				return fmt.Errorf("%s:%d: global needs  <package path>: <fact>", path, l.no)
			}
			cl := &Clause{Kind: "global", Text: strings.TrimSpace(rest[i+1:]), Line: l.no, File: path, Name: "global"}
			cs.Globals = append(cs.Globals, &GlobalFact{PkgPath: strings.TrimSpace(rest[:i]), Clause: cl})
			lastClause = cl
			cur = nil
		case word == "pure" || word == "rec":
			if err := finishClause(); err != nil {
				return err
			}
			// pure func name(a T, b T) T = expr
			m := regexp.MustCompile(`^(pure|rec)\s+func\s+([A-Za-z0-9_]+)\s*\(([^)]*)\)\s*([A-Za-z0-9_.\[\]*]+)\s*=\s*(.*)$`).FindStringSubmatch(t)
			if m == nil {
				return fmt.Errorf("%s:%d: cannot parse spec function %q", path, l.no, t)
			}
			sf := &SpecFunc{Name: m[2], Result: m[4], Rec: m[1] == "rec", Text: m[5], File: path, Line: l.no, PkgPath: pkgPath}
			if strings.TrimSpace(m[3]) != "" {
				for _, p := range strings.Split(m[3], ",") {
					fs := strings.Fields(p)
					if len(fs) != 2 {
						return fmt.Errorf("%s:%d: spec function parameter %q needs a name and a type", path, l.no, p)
					}
					sf.Params = append(sf.Params, SVar{fs[0], fs[1]})
				}
			}
			if _, dup := cs.Funcs[sf.Name]; dup {
				return fmt.Errorf("%s:%d: duplicate spec function %s", path, l.no, sf.Name)
			}
			cs.Funcs[sf.Name] = sf
			lastFunc = sf
			cur = nil
		case word == "loop":
			if err := finishClause(); err != nil {
				return err
			}
			if cur == nil {
				return fmt.Errorf("%s:%d: loop outside a function contract", path, l.no)
			}
			var n int
			if _, err := fmt.Sscanf(strings.TrimSuffix(rest, ":"), "%d", &n); err != nil {
				return fmt.Errorf("%s:%d: bad loop ordinal %q", path, l.no, rest)
			}
			curLoop = &LoopSpec{Ordinal: n}
			cur.Loops[n] = curLoop
		case word == "inline" || word == "trusted" || word == "lemma" || word == "nooverflow":
			if err := finishClause(); err != nil {
				return err
			}
			if cur == nil {
				return fmt.Errorf("%s:%d: %s outside a function contract", path, l.no, word)
			}
			switch word {
			case "inline":
				cur.Inline = true
			case "trusted":
				cur.Trusted = true
			case "lemma":
				cur.Lemma = true
			case "nooverflow":
				cur.NoOverflow = true
			}
		case word == "props":
			if err := finishClause(); err != nil {
				return err
			}
			if cur == nil {
				return fmt.Errorf("%s:%d: props outside a function contract", path, l.no)
			}
			cur.Props = append(cur.Props, strings.Fields(strings.ReplaceAll(rest, ",", " "))...)
		case word == "opt":
			if err := finishClause(); err != nil {
				return err
			}
			if cur == nil {
				return fmt.Errorf("%s:%d: opt outside a function contract", path, l.no)
			}
			kv := strings.SplitN(rest, "=", 2)
			if len(kv) == 2 {
				cur.Opts[strings.TrimSpace(kv[0])] = strings.TrimSpace(kv[1])
			} else {
				cur.Opts[rest] = "1"
			}
		case word == "requires" || word == "ensures" || word == "invariant" || word == "decreases" || word == "modifies":
			if err := finishClause(); err != nil {
				return err
			}
			if cur == nil {
				return fmt.Errorf("%s:%d: %s outside a function contract", path, l.no, word)
			}
			cl := &Clause{Kind: word, Text: rest, Line: l.no, File: path}
			switch word {
			case "requires":
				curLoop = nil
				cl.Name = fmt.Sprintf("requires#%d", len(cur.Requires)+1)
				cur.Requires = append(cur.Requires, cl)
			case "ensures":
				curLoop = nil
				cl.Name = fmt.Sprintf("ensures#%d", len(cur.Ensures)+1)
				cur.Ensures = append(cur.Ensures, cl)
			case "modifies":
				curLoop = nil
				cl.Name = fmt.Sprintf("modifies#%d", len(cur.Modifies)+1)
				// may list several comma-separated expressions at top level
				cur.Modifies = append(cur.Modifies, cl)
			case "invariant":
				if curLoop == nil {
					return fmt.Errorf("%s:%d: invariant outside a loop", path, l.no)
				}
				cl.Name = fmt.Sprintf("loop%d/inv#%d", curLoop.Ordinal, len(curLoop.Invariants)+1)
				curLoop.Invariants = append(curLoop.Invariants, cl)
			case "decreases":
				if curLoop == nil {
					return fmt.Errorf("%s:%d: decreases outside a loop", path, l.no)
				}
				cl.Name = fmt.Sprintf("loop%d/decreases", curLoop.Ordinal)
				curLoop.Decreases = cl
			}
			lastClause = cl
		default:
			// continuation of the previous clause / spec function
			if lastClause != nil {
				lastClause.Text += " " + t
			} else if lastFunc != nil {
				lastFunc.Text += " " + t
			} else {
				return fmt.Errorf("%s:%d: unexpected contract line %q", path, l.no, t)
			}
		}
	}
	return finishClause()
}

func splitTopLevel(s string) []string {
	var out []string
	depth := 0
	start := 0
	for i := 0; i < len(s); i++ {
		switch s[i] {
		case '(', '[':
			depth++
		case ')', ']':
			depth--
		case ',':
			if depth == 0 {
				out = append(out, strings.TrimSpace(s[start:i]))
				start = i + 1
			}
		}
	}
	if strings.TrimSpace(s[start:]) != "" {
		out = append(out, strings.TrimSpace(s[start:]))
	}
	return out
}

func (p *sparser) isIdent(name string) bool {
	t := p.peek()
	return t.kind == "ident" && t.text == name
}

// withWitnesses returns e with the witness hints of existentials in positive
// positions (top level, under && and on the right of ==>) switched on.
func withWitnesses(e SExpr) SExpr {
	switch t := e.(type) {
	case *SBinary:
		switch t.Op {
		case "&&":
			return &SBinary{t.Op, withWitnesses(t.X), withWitnesses(t.Y)}
		case "==>":
			return &SBinary{t.Op, t.X, withWitnesses(t.Y)}
		}
	case *SQuant:
		if !t.All && len(t.Witness) > 0 {
			c := *t
			c.UseWitness = true
			return &c
		}
	}
	return e
}
