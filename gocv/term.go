package main

import (
	"fmt"
	"math/big"
	"sort"
	"strings"
)

// Sort is an SMT-LIB sort, written out.
type Sort string

const (
	SInt   Sort = "Int"
	SBool  Sort = "Bool"
	SStr   Sort = "Str"
	SSlice Sort = "Slice"
	SPtr   Sort = "Ptr"
	SF64   Sort = "(_ FloatingPoint 11 53)"
	SF32   Sort = "(_ FloatingPoint 8 24)"
	SBV64  Sort = "(_ BitVec 64)"
	SBV32  Sort = "(_ BitVec 32)"
	SIface Sort = "Iface"
	SOpq   Sort = "Opq"
	SReal  Sort = "Real"
)

func ArraySort(idx, elem Sort) Sort { return Sort("(Array " + string(idx) + " " + string(elem) + ")") }

func (s Sort) IsArray() bool { return strings.HasPrefix(string(s), "(Array ") }

// ArrayParts splits "(Array I E)" into I and E.
func (s Sort) ArrayParts() (Sort, Sort) {
	str := string(s)
	str = strings.TrimSuffix(strings.TrimPrefix(str, "(Array "), ")")
	// first sort token (balanced)
	depth := 0
	for i := 0; i < len(str); i++ {
		switch str[i] {
		case '(':
			depth++
		case ')':
			depth--
		case ' ':
			if depth == 0 {
				return Sort(str[:i]), Sort(str[i+1:])
			}
		}
	}
	panic("bad array sort " + string(s))
}

func (s Sort) IsBV() bool { return strings.HasPrefix(string(s), "(_ BitVec ") }
func (s Sort) BVWidth() int {
	var w int
	fmt.Sscanf(string(s), "(_ BitVec %d)", &w)
	return w
}
func (s Sort) IsFP() bool { return strings.HasPrefix(string(s), "(_ FloatingPoint ") }

// Term is an SMT term.
type Term struct {
	Op   string  // operator or atom text
	Args []*Term // nil for atoms
	Sort Sort
	// For quantifiers: Op == "forall"/"exists", Bound holds the bound
	// variables and Args[0] the body.
	Bound []*Term
	// Pattern terms for quantifiers (optional).
	Pats []*Term
	str  string
}

func Atom(s string, sort Sort) *Term { return &Term{Op: s, Sort: sort} }
func App(op string, sort Sort, args ...*Term) *Term {
	return &Term{Op: op, Args: args, Sort: sort}
}

var (
	True  = Atom("true", SBool)
	False = Atom("false", SBool)
)

func IntLit(n int64) *Term { return IntLitBig(big.NewInt(n)) }
func IntLitBig(n *big.Int) *Term {
	if n.Sign() < 0 {
		return &Term{Op: "-", Args: []*Term{Atom(new(big.Int).Neg(n).String(), SInt)}, Sort: SInt}
	}
	return Atom(n.String(), SInt)
}

// IntVal returns the literal value of t if it is an integer literal.
func (t *Term) IntVal() (*big.Int, bool) {
	if t.Sort != SInt {
		return nil, false
	}
	if len(t.Args) == 0 {
		if len(t.Op) > 0 && t.Op[0] >= '0' && t.Op[0] <= '9' {
			n, ok := new(big.Int).SetString(t.Op, 10)
			return n, ok
		}
		return nil, false
	}
	if t.Op == "-" && len(t.Args) == 1 {
		if n, ok := t.Args[0].IntVal(); ok {
			return new(big.Int).Neg(n), true
		}
	}
	return nil, false
}

func (t *Term) IsTrue() bool  { return t.Op == "true" && len(t.Args) == 0 }
func (t *Term) IsFalse() bool { return t.Op == "false" && len(t.Args) == 0 }

func (t *Term) String() string {
	if t.str != "" {
		return t.str
	}
	var sb strings.Builder
	t.write(&sb)
	t.str = sb.String()
	return t.str
}

func (t *Term) write(sb *strings.Builder) {
	if t.str != "" {
		sb.WriteString(t.str)
		return
	}
	if t.Op == "forall" || t.Op == "exists" {
		sb.WriteString("(" + t.Op + " (")
		for _, b := range t.Bound {
			sb.WriteString("(" + b.Op + " " + string(b.Sort) + ")")
		}
		sb.WriteString(") ")
		if len(t.Pats) > 0 {
			sb.WriteString("(! ")
			t.Args[0].write(sb)
			sb.WriteString(" :pattern (")
			for i, p := range t.Pats {
				if i > 0 {
					sb.WriteString(" ")
				}
				p.write(sb)
			}
			sb.WriteString("))")
		} else {
			t.Args[0].write(sb)
		}
		sb.WriteString(")")
		return
	}
	if len(t.Args) == 0 {
		sb.WriteString(t.Op)
		return
	}
	sb.WriteString("(")
	sb.WriteString(t.Op)
	for _, a := range t.Args {
		sb.WriteString(" ")
		a.write(sb)
	}
	sb.WriteString(")")
}

func Eq(a, b *Term) *Term {
	if a.String() == b.String() {
		if !a.Sort.IsFP() { // fp: = is structural, reflexive too, fine
			return True
		}
		return True
	}
	if av, ok := a.IntVal(); ok {
		if bv, ok := b.IntVal(); ok {
			if av.Cmp(bv) == 0 {
				return True
			}
			return False
		}
	}
	if a.Sort == SBool {
		if b.IsTrue() {
			return a
		}
		if a.IsTrue() {
			return b
		}
		if b.IsFalse() {
			return Not(a)
		}
		if a.IsFalse() {
			return Not(b)
		}
	}
	return App("=", SBool, a, b)
}

func Not(a *Term) *Term {
	if a.IsTrue() {
		return False
	}
	if a.IsFalse() {
		return True
	}
	if a.Op == "not" && len(a.Args) == 1 {
		return a.Args[0]
	}
	return App("not", SBool, a)
}

func And(ts ...*Term) *Term {
	var out []*Term
	for _, t := range ts {
		if t.IsTrue() {
			continue
		}
		if t.IsFalse() {
			return False
		}
		if t.Op == "and" && len(t.Args) > 0 {
			out = append(out, t.Args...)
			continue
		}
		out = append(out, t)
	}
	switch len(out) {
	case 0:
		return True
	case 1:
		return out[0]
	}
	return App("and", SBool, out...)
}

func Or(ts ...*Term) *Term {
	var out []*Term
	for _, t := range ts {
		if t.IsFalse() {
			continue
		}
		if t.IsTrue() {
			return True
		}
		if t.Op == "or" && len(t.Args) > 0 {
			out = append(out, t.Args...)
			continue
		}
		out = append(out, t)
	}
	switch len(out) {
	case 0:
		return False
	case 1:
		return out[0]
	}
	return App("or", SBool, out...)
}

func Implies(a, b *Term) *Term {
	if a.IsTrue() {
		return b
	}
	if a.IsFalse() || b.IsTrue() {
		return True
	}
	if b.IsFalse() {
		return Not(a)
	}
	return App("=>", SBool, a, b)
}

func Ite(c, a, b *Term) *Term {
	if c.IsTrue() {
		return a
	}
	if c.IsFalse() {
		return b
	}
	if a.String() == b.String() {
		return a
	}
	if a.Sort == SBool {
		if a.IsTrue() && b.IsFalse() {
			return c
		}
		if a.IsFalse() && b.IsTrue() {
			return Not(c)
		}
	}
	return App("ite", a.Sort, c, a, b)
}

func intBin(op string, a, b *Term) *Term {
	av, aok := a.IntVal()
	bv, bok := b.IntVal()
	if aok && bok {
		r := new(big.Int)
		switch op {
		case "+":
			return IntLitBig(r.Add(av, bv))
		case "-":
			return IntLitBig(r.Sub(av, bv))
		case "*":
			return IntLitBig(r.Mul(av, bv))
		}
	}
	switch op {
	case "+":
		if aok && av.Sign() == 0 {
			return b
		}
		if bok && bv.Sign() == 0 {
			return a
		}
		// (x + c1) + c2
		if bok && a.Op == "+" && len(a.Args) == 2 {
			if cv, ok := a.Args[1].IntVal(); ok {
				return intBin("+", a.Args[0], IntLitBig(new(big.Int).Add(cv, bv)))
			}
		}
		if bok && a.Op == "-" && len(a.Args) == 2 {
			if cv, ok := a.Args[1].IntVal(); ok {
				return intBin("+", a.Args[0], IntLitBig(new(big.Int).Sub(bv, cv)))
			}
		}
		if bok && bv.Sign() < 0 {
			return intBin("-", a, IntLitBig(new(big.Int).Neg(bv)))
		}
	case "-":
		if bok && bv.Sign() == 0 {
			return a
		}
		if a.String() == b.String() {
			return IntLit(0)
		}
		if bok && a.Op == "+" && len(a.Args) == 2 {
			if cv, ok := a.Args[1].IntVal(); ok {
				return intBin("+", a.Args[0], IntLitBig(new(big.Int).Sub(cv, bv)))
			}
		}
		if bok && a.Op == "-" && len(a.Args) == 2 {
			if cv, ok := a.Args[1].IntVal(); ok {
				return intBin("-", a.Args[0], IntLitBig(new(big.Int).Add(cv, bv)))
			}
		}
		if bok && bv.Sign() < 0 {
			return intBin("+", a, IntLitBig(new(big.Int).Neg(bv)))
		}
	case "*":
		if aok && av.Cmp(big.NewInt(1)) == 0 {
			return b
		}
		if bok && bv.Cmp(big.NewInt(1)) == 0 {
			return a
		}
		if (aok && av.Sign() == 0) || (bok && bv.Sign() == 0) {
			return IntLit(0)
		}
	}
	return App(op, SInt, a, b)
}

func Add(a, b *Term) *Term { return intBin("+", a, b) }
func Sub(a, b *Term) *Term { return intBin("-", a, b) }
func Mul(a, b *Term) *Term { return intBin("*", a, b) }
func Neg(a *Term) *Term {
	if v, ok := a.IntVal(); ok {
		return IntLitBig(new(big.Int).Neg(v))
	}
	return App("-", SInt, a)
}

func intCmp(op string, a, b *Term) *Term {
	av, aok := a.IntVal()
	bv, bok := b.IntVal()
	if aok && bok {
		c := av.Cmp(bv)
		var r bool
		switch op {
		case "<":
			r = c < 0
		case "<=":
			r = c <= 0
		case ">":
			r = c > 0
		case ">=":
			r = c >= 0
		}
		if r {
			return True
		}
		return False
	}
	if a.String() == b.String() {
		if op == "<=" || op == ">=" {
			return True
		}
		return False
	}
	return App(op, SBool, a, b)
}

func Lt(a, b *Term) *Term { return intCmp("<", a, b) }
func Le(a, b *Term) *Term { return intCmp("<=", a, b) }
func Gt(a, b *Term) *Term { return intCmp(">", a, b) }
func Ge(a, b *Term) *Term { return intCmp(">=", a, b) }

// Select with store/const simplification on syntactically decidable indices.
// termDefs maps the name of an introduced constant to its defining term, so
// that Select can look through named heap states.  Reset per function.
var termDefs = map[string]*Term{}

func Select(arr, idx *Term) *Term {
	_, es := arr.Sort.ArrayParts()
	orig := arr
	for {
		cur := arr
		if len(cur.Args) == 0 {
			if d, ok := termDefs[cur.Op]; ok {
				cur = d
			}
		}
		if cur.Op == "store" && len(cur.Args) == 3 {
			if cur.Args[1].String() == idx.String() {
				return cur.Args[2]
			}
			if definitelyDistinct(cur.Args[1], idx) {
				arr = cur.Args[0]
				orig = arr
				continue
			}
		}
		if len(cur.Args) == 1 && strings.HasPrefix(cur.Op, "(as const ") {
			return cur.Args[0]
		}
		break
	}
	return App("select", es, orig, idx)
}

func definitelyDistinct(a, b *Term) bool {
	av, aok := a.IntVal()
	bv, bok := b.IntVal()
	if aok && bok {
		return av.Cmp(bv) != 0
	}
	// x+c1 vs x+c2
	ab, ac := splitConst(a)
	bb, bc := splitConst(b)
	if ab != nil && bb != nil && ab.String() == bb.String() {
		return ac.Cmp(bc) != 0
	}
	return false
}

func splitConst(t *Term) (*Term, *big.Int) {
	if t.Sort != SInt {
		return nil, nil
	}
	if (t.Op == "+" || t.Op == "-") && len(t.Args) == 2 {
		if c, ok := t.Args[1].IntVal(); ok {
			if t.Op == "-" {
				c = new(big.Int).Neg(c)
			}
			return t.Args[0], c
		}
	}
	return t, big.NewInt(0)
}

func Store(arr, idx, v *Term) *Term {
	if arr.Op == "store" && len(arr.Args) == 3 && arr.Args[1].String() == idx.String() {
		arr = arr.Args[0]
	}
	return App("store", arr.Sort, arr, idx, v)
}

func ConstArray(sort Sort, v *Term) *Term {
	return &Term{Op: "(as const " + string(sort) + ")", Args: []*Term{v}, Sort: sort}
}

// Datatype helpers: constructor "mk-X", selectors named by field.
func Ctor(name string, sort Sort, args ...*Term) *Term { return App(name, sort, args...) }

type dtInfo struct {
	ctor   string
	fields []string
	sorts  []Sort
}

var datatypes = map[Sort]*dtInfo{
	SSlice: {ctor: "mk-slice", fields: []string{"s-ref", "s-off", "s-len", "s-cap"}, sorts: []Sort{SInt, SInt, SInt, SInt}},
	SPtr:   {ctor: "mk-ptr", fields: []string{"p-ref", "p-idx"}, sorts: []Sort{SInt, SInt}},
}

// Sel applies a datatype selector, simplifying over constructors and ite.
func Sel(field string, t *Term) *Term {
	dt := datatypes[t.Sort]
	if dt == nil {
		panic("Sel on non-datatype sort " + string(t.Sort) + " field " + field)
	}
	fi := -1
	for i, f := range dt.fields {
		if f == field {
			fi = i
		}
	}
	if fi < 0 {
		panic("no field " + field + " in " + string(t.Sort))
	}
	if t.Op == dt.ctor && len(t.Args) == len(dt.fields) {
		return t.Args[fi]
	}
	if t.Op == "ite" && len(t.Args) == 3 {
		a, b := t.Args[1], t.Args[2]
		if a.Op == dt.ctor || b.Op == dt.ctor {
			return Ite(t.Args[0], Sel(field, a), Sel(field, b))
		}
	}
	return App(field, dt.sorts[fi], t)
}

func MkSlice(ref, off, ln, cp *Term) *Term { return Ctor("mk-slice", SSlice, ref, off, ln, cp) }
func MkPtr(ref, idx *Term) *Term           { return Ctor("mk-ptr", SPtr, ref, idx) }

var NilSlice = MkSlice(IntLit(0), IntLit(0), IntLit(0), IntLit(0))
var NilPtr = MkPtr(IntLit(0), IntLit(0))

// UpdateField rebuilds a datatype value with one field replaced.
func UpdateField(t *Term, fi int, v *Term) *Term {
	dt := datatypes[t.Sort]
	args := make([]*Term, len(dt.fields))
	for i, f := range dt.fields {
		if i == fi {
			args[i] = v
		} else {
			args[i] = Sel(f, t)
		}
	}
	return Ctor(dt.ctor, t.Sort, args...)
}

// Subst replaces atoms by terms (used for contract instantiation of bound names).
func Subst(t *Term, m map[string]*Term) *Term {
	if len(m) == 0 {
		return t
	}
	if len(t.Args) == 0 {
		if r, ok := m[t.Op]; ok {
			return r
		}
		return t
	}
	if t.Op == "forall" || t.Op == "exists" {
		inner := m
		for _, b := range t.Bound {
			if _, ok := m[b.Op]; ok {
				inner = map[string]*Term{}
				for k, v := range m {
					inner[k] = v
				}
				for _, b := range t.Bound {
					delete(inner, b.Op)
				}
				break
			}
		}
		nt := &Term{Op: t.Op, Sort: t.Sort, Bound: t.Bound, Args: []*Term{Subst(t.Args[0], inner)}}
		for _, p := range t.Pats {
			nt.Pats = append(nt.Pats, Subst(p, inner))
		}
		return nt
	}
	changed := false
	args := make([]*Term, len(t.Args))
	for i, a := range t.Args {
		args[i] = Subst(a, m)
		if args[i] != a {
			changed = true
		}
	}
	if !changed {
		return t
	}
	return &Term{Op: t.Op, Args: args, Sort: t.Sort}
}

// FreeAtoms collects atom names occurring in t (for declaration pruning).
func FreeAtoms(t *Term, out map[string]bool) {
	if len(t.Args) == 0 {
		out[t.Op] = true
		return
	}
	out[t.Op] = true
	for _, a := range t.Args {
		FreeAtoms(a, out)
	}
	for _, p := range t.Pats {
		FreeAtoms(p, out)
	}
}

func sortedKeys[V any](m map[string]V) []string {
	ks := make([]string, 0, len(m))
	for k := range m {
		ks = append(ks, k)
	}
	sort.Strings(ks)
	return ks
}

// ---------------------------------------------------------------------------
// Linear index normalisation for quantifiers.
//
// A quantified fact written over relative indices,  ∀j. lo ≤ j < hi ⇒ P(A[base+j]),
// is rewritten over the absolute index a = base+j:  ∀a. lo ≤ a-base < hi ⇒ P(A[a]).
// The two are equivalent (j ↦ base+j is a bijection on Int), and the second form has
// the trigger A[a], which E-matching can instantiate with any index term.

type linTerm struct {
	coef  map[string]*big.Int
	terms map[string]*Term
	konst *big.Int
}

func linearize(t *Term) *linTerm {
	l := &linTerm{coef: map[string]*big.Int{}, terms: map[string]*Term{}, konst: big.NewInt(0)}
	l.add(t, big.NewInt(1))
	return l
}

func (l *linTerm) add(t *Term, k *big.Int) {
	if v, ok := t.IntVal(); ok {
		l.konst.Add(l.konst, new(big.Int).Mul(v, k))
		return
	}
	switch {
	case t.Op == "+" && len(t.Args) >= 2:
		for _, a := range t.Args {
			l.add(a, k)
		}
		return
	case t.Op == "-" && len(t.Args) == 2:
		l.add(t.Args[0], k)
		l.add(t.Args[1], new(big.Int).Neg(k))
		return
	case t.Op == "-" && len(t.Args) == 1:
		l.add(t.Args[0], new(big.Int).Neg(k))
		return
	case t.Op == "*" && len(t.Args) == 2:
		if v, ok := t.Args[0].IntVal(); ok {
			l.add(t.Args[1], new(big.Int).Mul(k, v))
			return
		}
		if v, ok := t.Args[1].IntVal(); ok {
			l.add(t.Args[0], new(big.Int).Mul(k, v))
			return
		}
	}
	s := t.String()
	if c, ok := l.coef[s]; ok {
		c.Add(c, k)
	} else {
		l.coef[s] = new(big.Int).Set(k)
		l.terms[s] = t
	}
}

// without returns the linear term minus the atom named name, as a Term.
func (l *linTerm) without(name string) *Term {
	var sum *Term = IntLitBig(l.konst)
	for _, s := range sortedKeys(l.coef) {
		if s == name {
			continue
		}
		c := l.coef[s]
		if c.Sign() == 0 {
			continue
		}
		var part *Term
		if c.Cmp(big.NewInt(1)) == 0 {
			part = l.terms[s]
		} else if c.Cmp(big.NewInt(-1)) == 0 {
			sum = Sub(sum, l.terms[s])
			continue
		} else {
			part = Mul(IntLitBig(c), l.terms[s])
		}
		if v, ok := sum.IntVal(); ok && v.Sign() == 0 {
			sum = part
		} else {
			sum = Add(sum, part)
		}
	}
	return sum
}

func mentions(t *Term, name string) bool {
	if len(t.Args) == 0 {
		return t.Op == name
	}
	for _, a := range t.Args {
		if mentions(a, name) {
			return true
		}
	}
	return false
}

// findIndexWith finds the first select index term of sort Int that mentions name.
func findIndexWith(t *Term, name string) *Term {
	if t.Op == "select" && len(t.Args) == 2 {
		if r := findIndexWith(t.Args[0], name); r != nil {
			return r
		}
		if t.Args[1].Sort == SInt && mentions(t.Args[1], name) {
			if len(t.Args[1].Args) > 0 { // not the bare variable
				return t.Args[1]
			}
			return nil
		}
	}
	for _, a := range t.Args {
		if r := findIndexWith(a, name); r != nil {
			return r
		}
	}
	return nil
}

func replaceTerm(t *Term, from string, to *Term) *Term {
	if t.String() == from {
		return to
	}
	if len(t.Args) == 0 {
		return t
	}
	changed := false
	args := make([]*Term, len(t.Args))
	for i, a := range t.Args {
		args[i] = replaceTerm(a, from, to)
		if args[i] != a {
			changed = true
		}
	}
	if !changed {
		return t
	}
	n := &Term{Op: t.Op, Args: args, Sort: t.Sort, Bound: t.Bound}
	for _, p := range t.Pats {
		n.Pats = append(n.Pats, replaceTerm(p, from, to))
	}
	return n
}

var quantCtr int

// collectIndexTerms gathers the distinct select index terms mentioning name.
func collectIndexTerms(t *Term, name string, seen map[string]bool, out *[]*Term) {
	if t.Op == "select" && len(t.Args) == 2 && t.Args[1].Sort == SInt && mentions(t.Args[1], name) {
		k := t.Args[1].String()
		if !seen[k] {
			seen[k] = true
			*out = append(*out, t.Args[1])
		}
	}
	for _, a := range t.Args {
		collectIndexTerms(a, name, seen, out)
	}
}

// MkQuant builds a quantifier, normalising relative indices to absolute ones.
// When the bound variable indexes several arrays at different offsets, the
// result is the conjunction of the (equivalent) variants normalised for each,
// so that every array provides a trigger.
func MkQuant(op string, bound []*Term, body *Term) *Term {
	if body.IsTrue() || body.IsFalse() {
		return body
	}
	if len(bound) == 1 && bound[0].Sort == SInt && op == "forall" {
		var idxs []*Term
		collectIndexTerms(body, bound[0].Op, map[string]bool{}, &idxs)
		var usable []*Term
		for _, ix := range idxs {
			lin := linearize(ix)
			if c, ok := lin.coef[bound[0].Op]; ok && c.Cmp(big.NewInt(1)) == 0 && !mentions(lin.without(bound[0].Op), bound[0].Op) {
				usable = append(usable, ix)
			}
		}
		if len(usable) > 1 {
			if len(usable) > 3 {
				usable = usable[:3]
			}
			var variants []*Term
			for _, ix := range usable {
				variants = append(variants, mkQuantFor(op, bound, body, ix))
			}
			return And(variants...)
		}
	}
	return mkQuant1(op, bound, body)
}

// mkQuantFor normalises the single bound variable with respect to index term ix.
func mkQuantFor(op string, bound []*Term, body *Term, ix *Term) *Term {
	b := bound[0]
	if len(ix.Args) == 0 {
		return &Term{Op: op, Sort: SBool, Bound: bound, Args: []*Term{body}}
	}
	lin := linearize(ix)
	base := lin.without(b.Op)
	quantCtr++
	a := Atom(fmt.Sprintf("a!%d", quantCtr), SInt)
	nb := replaceTerm(body, ix.String(), a)
	nb = Subst(nb, map[string]*Term{b.Op: Sub(a, base)})
	return &Term{Op: op, Sort: SBool, Bound: []*Term{a}, Args: []*Term{nb}}
}

func mkQuant1(op string, bound []*Term, body *Term) *Term {
	return mkQuantPats(op, bound, body, nil)
}

// mkQuantPats: as mkQuant1, carrying an explicit multi-pattern through the
// normalisation (so that patterns are free of index arithmetic).
func mkQuantPats(op string, bound []*Term, body *Term, pats []*Term) *Term {
	pats = append([]*Term(nil), pats...)
	nb := make([]*Term, len(bound))
	copy(nb, bound)
	for i, b := range nb {
		if b.Sort != SInt {
			continue
		}
		var idxs []*Term
		collectIndexTerms(body, b.Op, map[string]bool{}, &idxs)
		bare := false
		for _, ix := range idxs {
			if len(ix.Args) == 0 {
				bare = true
			}
		}
		if bare {
			continue // A[j] occurs: already a usable trigger
		}
		var idx, base *Term
		for _, ix := range idxs {
			lin := linearize(ix)
			c, ok := lin.coef[b.Op]
			if !ok || c.Cmp(big.NewInt(1)) != 0 {
				continue
			}
			bs := lin.without(b.Op)
			if mentions(bs, b.Op) {
				continue
			}
			idx, base = ix, bs
			break
		}
		if idx == nil {
			continue
		}
		quantCtr++
		a := Atom(fmt.Sprintf("a!%d", quantCtr), SInt)
		body = replaceTerm(body, idx.String(), a)
		body = Subst(body, map[string]*Term{b.Op: Sub(a, base)})
		for k, pt := range pats {
			pt = replaceTerm(pt, idx.String(), a)
			pats[k] = Subst(pt, map[string]*Term{b.Op: Sub(a, base)})
		}
		nb[i] = a
	}
	return &Term{Op: op, Sort: SBool, Bound: nb, Args: []*Term{body}, Pats: pats}
}
