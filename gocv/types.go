package main

import (
	"fmt"
	"go/types"
	"math/big"
	"strings"
)

// TypeInfo maps Go types to SMT sorts and records the datatype declarations
// that the mapping needs.  It is shared by all functions of a run (struct
// sorts are global).
type TypeInfo struct {
	structSorts map[string]Sort     // canonical type string -> sort
	structDecl  map[Sort]string     // sort -> declare-datatypes line
	structOrder []Sort              // declaration order (dependencies first)
	structType  map[Sort]*types.Struct
	inProgress  map[string]bool
	light       bool
}

func NewTypeInfo() *TypeInfo {
	return &TypeInfo{structSorts: map[string]Sort{}, structDecl: map[Sort]string{}, structType: map[Sort]*types.Struct{}, inProgress: map[string]bool{}}
}

func sanitize(s string) string {
	var sb strings.Builder
	for _, c := range s {
		switch {
		case c >= 'a' && c <= 'z', c >= 'A' && c <= 'Z', c >= '0' && c <= '9', c == '_':
			sb.WriteRune(c)
		default:
			sb.WriteRune('_')
		}
	}
	return sb.String()
}

func shortPkg(path string) string {
	path = strings.TrimPrefix(path, "golang.org/x/perf/")
	return sanitize(path)
}

func namedKey(n *types.Named) string {
	obj := n.Obj()
	s := obj.Name()
	if obj.Pkg() != nil {
		s = shortPkg(obj.Pkg().Path()) + "_" + s
	}
	if ta := n.TypeArgs(); ta != nil {
		for i := 0; i < ta.Len(); i++ {
			s += "_" + sanitize(types.TypeString(ta.At(i), nil))
		}
	}
	return s
}

// intKind classifies basic integer types: signed / small unsigned as Int,
// wide unsigned as bit-vectors.
func intBits(b *types.Basic) (bits int, signed bool, ok bool) {
	switch b.Kind() {
	case types.Int, types.Int64, types.UntypedInt:
		return 64, true, true
	case types.Int32, types.UntypedRune:
		return 32, true, true
	case types.Int16:
		return 16, true, true
	case types.Int8:
		return 8, true, true
	case types.Uint8:
		return 8, false, true
	case types.Uint16:
		return 16, false, true
	case types.Uint32:
		return 32, false, true
	case types.Uint, types.Uint64, types.Uintptr:
		return 64, false, true
	}
	return 0, false, false
}

// isBVType reports whether t is modelled as a bit-vector.
// uintAsInt switches uint/uint64 to mathematical integers with explicit
// wrap-around (per function, for code that does arithmetic rather than bit tricks).
var uintAsInt bool

func isBVType(t types.Type) bool {
	if uintAsInt {
		return false
	}
	b, ok := t.Underlying().(*types.Basic)
	if !ok {
		return false
	}
	switch b.Kind() {
	case types.Uint32, types.Uint, types.Uint64, types.Uintptr:
		return true
	}
	return false
}

func (ti *TypeInfo) SortOf(t types.Type) Sort {
	switch u := t.Underlying().(type) {
	case *types.Basic:
		switch {
		case u.Info()&types.IsBoolean != 0:
			return SBool
		case u.Info()&types.IsString != 0:
			return SStr
		case u.Info()&types.IsFloat != 0:
			if u.Kind() == types.Float32 {
				return SF32
			}
			return SF64
		case u.Info()&types.IsInteger != 0:
			bits, signed, _ := intBits(u)
			if !signed && bits >= 32 && !uintAsInt {
				if bits == 32 {
					return SBV32
				}
				return SBV64
			}
			return SInt
		case u.Kind() == types.UnsafePointer:
			return SOpq
		case u.Kind() == types.UntypedNil:
			return SOpq
		}
		return SOpq
	case *types.Slice:
		return SSlice
	case *types.Pointer:
		return SPtr
	case *types.Map:
		return SInt
	case *types.Struct:
		return ti.structSort(t, u)
	case *types.Array:
		return ArraySort(SInt, ti.SortOf(u.Elem()))
	case *types.Interface:
		return SIface
	case *types.Signature, *types.Chan:
		return SOpq
	case *types.Tuple:
		return SOpq
	}
	return SOpq
}

func (ti *TypeInfo) structSort(t types.Type, st *types.Struct) Sort {
	var key string
	if n, ok := t.(*types.Named); ok {
		key = namedKey(n)
	} else if a, ok := t.(*types.Alias); ok {
		return ti.structSort(types.Unalias(a), st)
	} else {
		key = "anon_" + sanitize(fmt.Sprintf("%x", hashString(st.String())))
	}
	if s, ok := ti.structSorts[key]; ok {
		return s
	}
	sort := Sort("S_" + key)
	ti.structSorts[key] = sort
	ti.structType[sort] = st
	dt := &dtInfo{ctor: "mk-" + string(sort)}
	var sb strings.Builder
	fmt.Fprintf(&sb, "(declare-datatypes ((%s 0)) (((%s", sort, dt.ctor)
	if st.NumFields() == 0 {
		// SMT datatypes need no fields for a nullary constructor
	}
	for i := 0; i < st.NumFields(); i++ {
		f := st.Field(i)
		fs := ti.SortOf(f.Type())
		fname := fmt.Sprintf("%s.%s", sort, sanitize(f.Name()))
		if f.Name() == "_" {
			fname = fmt.Sprintf("%s._%d", sort, i)
		}
		dt.fields = append(dt.fields, fname)
		dt.sorts = append(dt.sorts, fs)
		fmt.Fprintf(&sb, " (%s %s)", fname, fs)
	}
	sb.WriteString("))))")
	datatypes[sort] = dt
	ti.structDecl[sort] = sb.String()
	ti.structOrder = append(ti.structOrder, sort) // fields' struct sorts were appended during recursion
	return sort
}

func hashString(s string) uint64 {
	var h uint64 = 14695981039346656037
	for i := 0; i < len(s); i++ {
		h ^= uint64(s[i])
		h *= 1099511628211
	}
	return h
}

// HeapKey names the heap array holding objects with elements of type elem.
func (ti *TypeInfo) HeapKey(elem types.Type) string {
	return "H_" + ti.typeKey(elem)
}

func (ti *TypeInfo) typeKey(t types.Type) string {
	t = types.Unalias(t)
	if n, ok := t.(*types.Named); ok {
		if _, isStruct := n.Underlying().(*types.Struct); isStruct {
			return namedKey(n)
		}
	}
	switch u := t.Underlying().(type) {
	case *types.Basic:
		switch u.Kind() {
		case types.Uint8:
			return "uint8"
		case types.Int32, types.UntypedRune:
			return "int32"
		}
		return sanitize(u.Name())
	case *types.Slice:
		return "sl_" + ti.typeKey(u.Elem())
	case *types.Pointer:
		return "ptr_" + ti.typeKey(u.Elem())
	case *types.Map:
		return "map_" + ti.typeKey(u.Key()) + "_" + ti.typeKey(u.Elem())
	case *types.Array:
		return fmt.Sprintf("arr%d_%s", u.Len(), ti.typeKey(u.Elem()))
	case *types.Struct:
		return string(ti.structSort(t, u))
	case *types.Interface:
		return "iface"
	case *types.Signature:
		return "func"
	case *types.Chan:
		return "chan"
	}
	return sanitize(t.String())
}

// HeapSort is the sort of the heap array for elements of type elem.
func (ti *TypeInfo) HeapSort(elem types.Type) Sort {
	return ArraySort(SInt, ArraySort(SInt, ti.SortOf(elem)))
}

// Map heaps.
func (ti *TypeInfo) MapKeys(m *types.Map) (dom, val, ln string) {
	k := ti.typeKey(m)
	return "MD_" + k, "MV_" + k, "ML_" + k
}

// ZeroTerm gives the zero value of a type.
func (ti *TypeInfo) ZeroTerm(t types.Type) *Term {
	s := ti.SortOf(t)
	return ti.zeroOfSort(s, t)
}

func (ti *TypeInfo) zeroOfSort(s Sort, t types.Type) *Term {
	switch s {
	case SInt:
		return IntLit(0)
	case SBool:
		return False
	case SStr:
		return Atom("str-empty", SStr)
	case SSlice:
		return NilSlice
	case SPtr:
		return NilPtr
	case SF64:
		return Atom("(_ +zero 11 53)", SF64)
	case SF32:
		return Atom("(_ +zero 8 24)", SF32)
	case SBV64:
		return Atom("#x0000000000000000", SBV64)
	case SBV32:
		return Atom("#x00000000", SBV32)
	case SIface:
		return Atom("iface-nil", SIface)
	case SOpq:
		return Atom("opq-nil", SOpq)
	}
	if s.IsArray() {
		var et types.Type
		if t != nil {
			if a, ok := t.Underlying().(*types.Array); ok {
				et = a.Elem()
			}
		}
		_, es := s.ArrayParts()
		return ConstArray(s, ti.zeroOfSort(es, et))
	}
	if dt := datatypes[s]; dt != nil {
		st := ti.structType[s]
		args := make([]*Term, len(dt.fields))
		for i := range dt.fields {
			var ft types.Type
			if st != nil {
				ft = st.Field(i).Type()
			}
			args[i] = ti.zeroOfSort(dt.sorts[i], ft)
		}
		if len(args) == 0 {
			return Atom(dt.ctor, s)
		}
		return Ctor(dt.ctor, s, args...)
	}
	panic("no zero for sort " + string(s))
}

var (
	twoTo63 = new(big.Int).Lsh(big.NewInt(1), 63)
	maxLen  = new(big.Int).Lsh(big.NewInt(1), 48)
)

func intRange(bits int, signed bool) (lo, hi *big.Int) {
	if signed {
		hi = new(big.Int).Lsh(big.NewInt(1), uint(bits-1))
		lo = new(big.Int).Neg(hi)
		hi = new(big.Int).Sub(hi, big.NewInt(1))
		return
	}
	hi = new(big.Int).Lsh(big.NewInt(1), uint(bits))
	hi.Sub(hi, big.NewInt(1))
	return big.NewInt(0), hi
}

// WF returns typing/well-formedness facts about a value term of Go type t
// that hold for every value of that type in any reachable state.
// alloc bounds the references it may hold.
// WFHeap is WF restricted to slice shapes and reference bounds (used for the
// quantified facts about whole heaps, where fewer conjuncts keep the solver fast).
func (ti *TypeInfo) WFHeap(v *Term, t types.Type, alloc *Term) []*Term {
	ti.light = true
	defer func() { ti.light = false }()
	return ti.WF(v, t, alloc)
}

func (ti *TypeInfo) WF(v *Term, t types.Type, alloc *Term) []*Term {
	var out []*Term
	switch u := t.Underlying().(type) {
	case *types.Basic:
		if ti.light {
			return nil
		}
		if u.Info()&types.IsInteger != 0 && v.Sort == SInt {
			if _, isLit := v.IntVal(); isLit {
				return nil
			}
			bits, signed, _ := intBits(u)
			lo, hi := intRange(bits, signed)
			out = append(out, Le(IntLitBig(lo), v), Le(v, IntLitBig(hi)))
		}
		if v.Sort == SStr {
			if v.Op == "str-empty" {
				return nil
			}
			out = append(out, Le(IntLit(0), App("slen", SInt, v)), Le(App("slen", SInt, v), IntLitBig(maxLen)))
		}
	case *types.Slice:
		if v.Op == "mk-slice" {
			if _, ok := v.Args[0].IntVal(); ok {
				if _, ok := v.Args[2].IntVal(); ok {
					return nil
				}
			}
		}
		ref, off, ln, cp := Sel("s-ref", v), Sel("s-off", v), Sel("s-len", v), Sel("s-cap", v)
		if ti.light {
			out = append(out, Le(IntLit(0), ref), Le(IntLit(0), off), Le(IntLit(0), ln), Le(ln, cp), Implies(Eq(ref, IntLit(0)), Eq(cp, IntLit(0))))
		} else {
			out = append(out, Le(IntLit(0), ref), Le(IntLit(0), off), Le(IntLit(0), ln), Le(ln, cp), Le(cp, IntLitBig(maxLen)), Le(off, IntLitBig(maxLen)),
				Implies(Eq(ref, IntLit(0)), Eq(cp, IntLit(0))))
		}
		if alloc != nil {
			out = append(out, Le(ref, alloc))
		}
	case *types.Pointer:
		ref, idx := Sel("p-ref", v), Sel("p-idx", v)
		out = append(out, Le(IntLit(0), ref), Le(IntLit(0), idx), Implies(Eq(ref, IntLit(0)), Eq(idx, IntLit(0))))
		if alloc != nil {
			out = append(out, Le(ref, alloc))
		}
	case *types.Map:
		out = append(out, Le(IntLit(0), v))
		if alloc != nil {
			out = append(out, Le(v, alloc))
		}
	case *types.Struct:
		if dt := datatypes[v.Sort]; dt != nil {
			for i, f := range dt.fields {
				out = append(out, ti.WF(Sel(f, v), u.Field(i).Type(), alloc)...)
			}
		}
	}
	return out
}
