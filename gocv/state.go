package main

import (
	"fmt"
	"go/token"
	"go/types"

	"golang.org/x/tools/go/ssa"
)

// ---------------------------------------------------------------------------
// Values

type Value interface{}

// TV is a first-class value represented by an SMT term.
type TV struct {
	T  *Term
	Ty types.Type
}

type PathElem struct {
	Field int   // >= 0: struct field index
	Index *Term // array index when Field < 0
}

// Cell is a non-escaping local variable.
type Cell struct {
	id    int
	name  string
	ty    types.Type
	alloc *ssa.Alloc
}

// CellPtr points into a local cell.
type CellPtr struct {
	Cell *Cell
	Path []PathElem
	Ty   types.Type // pointee type
}

// HeapPtr points into a field/element path of a heap object.
type HeapPtr struct {
	Base *Term      // Ptr-sorted term addressing the enclosing object
	Obj  types.Type // type of the enclosing object (heap element type)
	Path []PathElem
	Ty   types.Type // pointee type
}

type Tuple []Value

// IterV is a range iterator over a string (Cell holds the byte position) or
// over a map (Cell holds the set of keys already visited).
type IterV struct {
	Str  *Term
	Cell *Cell
	Map  *Term      // map reference, for map iteration
	MapT *types.Map
}

// FuncV is a function value known statically.
type FuncV struct {
	Fn       *ssa.Function
	Bindings []Value
}

// BuiltinV is a builtin.
type BuiltinV struct{ Name string }

// ---------------------------------------------------------------------------
// State

type Frame struct {
	fn        *ssa.Function
	regs      map[ssa.Value]Value
	allocCell map[*ssa.Alloc]*Cell
	prev      *ssa.BasicBlock
	variants  map[*ssa.BasicBlock]*Term // variant value at loop head
	entered   map[*ssa.BasicBlock]bool  // loop headers entered (cut) on this path
	contract  *Contract
	depth     int
}

func (f *Frame) clone() *Frame {
	g := &Frame{fn: f.fn, prev: f.prev, contract: f.contract, depth: f.depth}
	g.regs = make(map[ssa.Value]Value, len(f.regs))
	for k, v := range f.regs {
		g.regs[k] = v
	}
	g.allocCell = make(map[*ssa.Alloc]*Cell, len(f.allocCell))
	for k, v := range f.allocCell {
		g.allocCell[k] = v
	}
	g.variants = make(map[*ssa.BasicBlock]*Term, len(f.variants))
	for k, v := range f.variants {
		g.variants[k] = v
	}
	g.entered = make(map[*ssa.BasicBlock]bool, len(f.entered))
	for k, v := range f.entered {
		g.entered[k] = v
	}
	return g
}

// Snapshot is what old(...) refers to.
type Snapshot struct {
	heap  map[string]*Term
	vars  map[string]Value
	alloc *Term
}

type State struct {
	frames []*Frame
	cells  map[*Cell]Value
	heap   map[string]*Term
	alloc  *Term
	hyps   []*Term
	trace  []int
	entry  *Snapshot
	dead   bool
	errSeen *Term // ghost: some callee returned a non-nil error on this path
}

func (s *State) top() *Frame { return s.frames[len(s.frames)-1] }

func (s *State) clone() *State {
	n := &State{alloc: s.alloc, entry: s.entry, errSeen: s.errSeen}
	n.frames = make([]*Frame, len(s.frames))
	for i, f := range s.frames {
		n.frames[i] = f.clone()
	}
	n.cells = make(map[*Cell]Value, len(s.cells))
	for k, v := range s.cells {
		n.cells[k] = v
	}
	n.heap = make(map[string]*Term, len(s.heap))
	for k, v := range s.heap {
		n.heap[k] = v
	}
	n.hyps = append([]*Term(nil), s.hyps...)
	n.trace = append([]int(nil), s.trace...)
	return n
}

func (s *State) assume(ts ...*Term) {
	for _, t := range ts {
		if t.IsTrue() {
			continue
		}
		if t.Op == "and" && len(t.Args) > 0 {
			s.assume(t.Args...)
			continue
		}
		if t.IsFalse() {
			s.dead = true
		}
		s.hyps = append(s.hyps, t)
	}
}

func copyHeap(h map[string]*Term) map[string]*Term {
	n := make(map[string]*Term, len(h))
	for k, v := range h {
		n[k] = v
	}
	return n
}

// ---------------------------------------------------------------------------
// Obligations

type Obligation struct {
	Fn     string
	Kind   string // safety, requires, ensures, inv-entry, inv-preserved, variant, frame, assert, vacuity
	Label  string // full name, unique
	Hyps   []*Term
	Goal   *Term
	Pos    token.Position
	Path   []int
	Clause *Clause
	// ExpectSat marks vacuity probes: the query (hyps ∧ goal) must be satisfiable.
	ExpectSat bool
	// Result
	Status   string // discharged, failed, unknown
	Solver   string
	Time     float64
	Model    string
	Output   string
	Script   string
	scriptHash string
}

func (o *Obligation) String() string { return fmt.Sprintf("%s [%s] %s", o.Label, o.Kind, o.Pos) }
