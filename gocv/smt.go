package main

import (
	"crypto/sha1"
	"bytes"
	"context"
	"fmt"
	"os"
	"os/exec"
	"strings"
	"sync"
	"time"
)

const preludeSorts = `(declare-sort Str 0)
(declare-sort Iface 0)
(declare-sort Opq 0)
(declare-datatypes ((Slice 0)) (((mk-slice (s-ref Int) (s-off Int) (s-len Int) (s-cap Int)))))
(declare-datatypes ((Ptr 0)) (((mk-ptr (p-ref Int) (p-idx Int)))))
(declare-const str-empty Str)
(declare-const iface-nil Iface)
(declare-const opq-nil Opq)
(declare-fun slen (Str) Int)
(declare-fun sat (Str Int) Int)
(declare-fun ssub (Str Int Int) Str)
(declare-fun sconcat (Str Str) Str)
(declare-fun bytes2str ((Array Int Int) Int Int) Str)
(declare-fun runeAt (Str Int) Int)
(declare-fun runeLen (Str Int) Int)
(declare-fun srank (Str) Int)
(declare-fun sunrank (Int) Str)
(define-fun godiv ((a Int) (b Int)) Int (ite (>= a 0) (ite (> b 0) (div a b) (- (div a (- b)))) (ite (> b 0) (- (div (- a) b)) (div (- a) (- b)))))
(define-fun gomod ((a Int) (b Int)) Int (- a (* b (godiv a b))))
(assert (= (slen str-empty) 0))
`

type axiomGroup struct {
	trigger string // included when this symbol occurs
	text    string
}

var preludeAxioms = []axiomGroup{
	{"ssub", `(assert (forall ((s Str) (a Int) (b Int)) (! (=> (and (<= 0 a) (<= a b)) (= (slen (ssub s a b)) (- b a))) :pattern ((ssub s a b)))))
(assert (forall ((s Str) (a Int) (b Int) (i Int)) (! (=> (and (<= 0 a) (<= 0 i) (< i (- b a))) (= (sat (ssub s a b) i) (sat s (+ a i)))) :pattern ((sat (ssub s a b) i)))))
(assert (forall ((s Str)) (! (= (ssub s 0 (slen s)) s) :pattern ((ssub s 0 (slen s))))))
(assert (forall ((s Str) (a Int) (b Int) (c Int) (d Int)) (! (=> (and (<= 0 a) (<= 0 c) (<= c d) (<= (+ a d) b)) (= (ssub (ssub s a b) c d) (ssub s (+ a c) (+ a d)))) :pattern ((ssub (ssub s a b) c d)))))
`},
	{"sconcat", `(assert (forall ((a Str) (b Str)) (! (= (slen (sconcat a b)) (+ (slen a) (slen b))) :pattern ((sconcat a b)))))
(assert (forall ((a Str) (b Str) (i Int)) (! (= (sat (sconcat a b) i) (ite (< i (slen a)) (sat a i) (sat b (- i (slen a))))) :pattern ((sat (sconcat a b) i)))))
`},
	{"bytes2str", `(assert (forall ((m (Array Int Int)) (o Int) (n Int)) (! (= (slen (bytes2str m o n)) (ite (>= n 0) n 0)) :pattern ((bytes2str m o n)))))
(assert (forall ((m (Array Int Int)) (o Int) (n Int) (i Int)) (! (=> (and (<= 0 i) (< i n)) (= (sat (bytes2str m o n) i) (select m (+ o i)))) :pattern ((sat (bytes2str m o n) i)))))
`},
	{"srank", `(assert (forall ((s Str)) (! (and (>= (srank s) 0) (= (sunrank (srank s)) s)) :pattern ((srank s)))))
(assert (= (srank str-empty) 0))
`},
	{"runeAt", `(assert (forall ((s Str) (i Int)) (! (=> (and (<= 0 i) (< i (slen s))) (and (<= 1 (runeLen s i)) (<= (runeLen s i) 4) (<= (+ i (runeLen s i)) (slen s)) (<= 0 (runeAt s i)) (<= (runeAt s i) 1114111) (=> (< (sat s i) 128) (and (= (runeAt s i) (sat s i)) (= (runeLen s i) 1))) (=> (>= (sat s i) 128) (>= (runeAt s i) 128)))) :pattern ((runeAt s i)))))
(assert (forall ((s Str) (i Int)) (! (=> (and (<= 0 i) (< i (slen s))) (and (<= 1 (runeLen s i)) (<= (runeLen s i) 4) (<= (+ i (runeLen s i)) (slen s)) (=> (< (sat s i) 128) (= (runeLen s i) 1)))) :pattern ((runeLen s i)))))
`},
	// decoding a rune in a suffix s[a:] looks at the same bytes, up to the same end, as
	// decoding it in s: same rune, same width
	{"runeAt", `(assert (forall ((s Str) (a Int) (k Int)) (! (=> (and (<= 0 a) (<= 0 k) (< (+ a k) (slen s))) (and (= (runeAt (ssub s a (slen s)) k) (runeAt s (+ a k))) (= (runeLen (ssub s a (slen s)) k) (runeLen s (+ a k))))) :pattern ((runeAt (ssub s a (slen s)) k)) :pattern ((runeLen (ssub s a (slen s)) k)))))
`},
	{"slen", `(assert (forall ((s Str)) (! (and (>= (slen s) 0) (=> (= (slen s) 0) (= s str-empty))) :pattern ((slen s)))))
`},
}

func (v *Verifier) buildScript(x *Exec, o *Obligation, models bool) string {
	var sb strings.Builder
	if models {
		sb.WriteString("(set-option :produce-models true)\n")
	}
	sb.WriteString("(set-logic ALL)\n")
	sb.WriteString(preludeSorts)
	for _, s := range v.ti.structOrder {
		sb.WriteString(v.ti.structDecl[s])
		sb.WriteString("\n")
	}
	for _, d := range x.decls {
		sb.WriteString(d)
		sb.WriteString("\n")
	}
	for _, f := range x.v.recFuncDecls(x) {
		sb.WriteString(f)
		sb.WriteString("\n")
	}
	var body strings.Builder
	for _, a := range x.axioms {
		fmt.Fprintf(&body, "(assert %s)\n", a)
	}
	for _, h := range o.Hyps {
		fmt.Fprintf(&body, "(assert %s)\n", h)
	}
	if o.ExpectSat {
		fmt.Fprintf(&body, "(assert %s)\n", o.Goal)
	} else {
		fmt.Fprintf(&body, "(assert (not %s))\n", o.Goal)
	}
	bs := body.String()
	for _, g := range preludeAxioms {
		if strings.Contains(bs, "("+g.trigger+" ") {
			sb.WriteString(g.text)
		}
	}
	sb.WriteString(bs)
	sb.WriteString("(check-sat)\n")
	if models {
		sb.WriteString("(get-model)\n")
	}
	return sb.String()
}

type solverSpec struct {
	name string
	args func(timeoutS int) []string
}

var solvers = []solverSpec{
	{"z3-new", func(t int) []string { return []string{"z3-new", "-in", fmt.Sprintf("-T:%d", t)} }},
	{"z3", func(t int) []string { return []string{"z3", "-in", fmt.Sprintf("-T:%d", t)} }},
	{"cvc5", func(t int) []string {
		return []string{"cvc5", "--lang", "smt2", fmt.Sprintf("--tlimit=%d", t*1000)}
	}},
}

type solveResult struct {
	verdict string // unsat, sat, unknown
	solver  string
	time    float64
	output  string
}

func runSolver(ctx context.Context, s solverSpec, script string, timeoutS int) solveResult {
	start := time.Now()
	args := s.args(timeoutS)
	cctx, cancel := context.WithTimeout(ctx, time.Duration(timeoutS+2)*time.Second)
	defer cancel()
	cmd := exec.CommandContext(cctx, args[0], args[1:]...)
	cmd.Stdin = strings.NewReader(script)
	var out bytes.Buffer
	cmd.Stdout = &out
	cmd.Stderr = &out
	cmd.Run()
	text := out.String()
	if verdict := strings.TrimSpace(firstLine(text)); verdict != "sat" && len(text) > 4096 {
		text = text[:4096] // only models are worth keeping in full
	} else if len(text) > 1<<20 {
		text = text[:1<<20]
	}
	first := strings.TrimSpace(text)
	if i := strings.IndexByte(first, '\n'); i >= 0 {
		first = first[:i]
	}
	verdict := "unknown"
	switch strings.TrimSpace(first) {
	case "unsat":
		verdict = "unsat"
	case "sat":
		verdict = "sat"
	}
	return solveResult{verdict, s.name, time.Since(start).Seconds(), text}
}

// solve races the solvers: the primary one alone with a short budget, then all.
// KeepScripts keeps the SMT text of discharged obligations (for -dump).
var KeepScripts bool

func solve(script string, timeoutS int, wantModel bool) solveResult {
	ctx, cancel := context.WithCancel(context.Background())
	defer cancel()
	quick := 3
	if timeoutS < quick {
		quick = timeoutS
	}
	r := runSolver(ctx, solvers[0], script, quick)
	if r.verdict != "unknown" {
		return r
	}
	return raceSolvers(script, timeoutS, r)
}

// constArraysForCVC5 rewrites constant arrays whose element is not a literal
// value — ((as const (Array Int S)) (mk-S c ...)) with c a declared constant —
// which cvc5 1.0 rejects at parse time ("expected a value"), into a fresh array
// constant with the axiom that every element equals that term.  The axiom is a
// consequence of the constant array, so unsat answers carry over.
func constArraysForCVC5(script string) string {
	const open = "((as const "
	first := strings.Index(script, "(assert")
	if first < 0 || !strings.Contains(script, open) {
		return script
	}
	var decls []string
	n, minI := 0, 0
	balanced := func(s string, i int) int { // index just past the s-expression starting at s[i]
		if s[i] != '(' {
			j := i
			for j < len(s) && s[j] != ' ' && s[j] != ')' && s[j] != '\n' {
				j++
			}
			return j
		}
		depth := 0
		for j := i; j < len(s); j++ {
			switch s[j] {
			case '(':
				depth++
			case ')':
				depth--
				if depth == 0 {
					return j + 1
				}
			}
		}
		return -1
	}
	body := script[first:]
	for guard := 0; guard < 10000; guard++ {
		// innermost occurrence: the last one in the text has no other inside its value
		i := strings.LastIndex(body, open)
		if i < 0 {
			break
		}
		sortStart := i + len(open)
		sortEnd := balanced(body, sortStart)
		if sortEnd < 0 || sortEnd >= len(body) || body[sortEnd] != ')' {
			return script
		}
		valStart := sortEnd + 1
		for valStart < len(body) && body[valStart] == ' ' {
			valStart++
		}
		valEnd := balanced(body, valStart)
		if valEnd < 0 || valEnd >= len(body) || body[valEnd] != ')' {
			return script
		}
		srt, val := body[sortStart:sortEnd], body[valStart:valEnd]
		if val == "true" || val == "false" || (len(val) > 0 && (val[0] >= '0' && val[0] <= '9' || val[0] == '#')) {
			// a literal element is accepted as it is: hide this occurrence from the search
			body = body[:i] + "((as\x01const " + body[sortStart:]
			continue
		}
		n++
		name := fmt.Sprintf("kconst!%d", n)
		decls = append(decls, fmt.Sprintf("(declare-fun %s () %s)\n(assert (forall ((i!kc Int)) (! (= (select %s i!kc) %s) :pattern ((select %s i!kc)))))\n", name, srt, name, val, name))
		body = body[:i] + name + body[valEnd+1:]
		minI = i // occurrences are taken from the end backwards: the last one taken is the earliest
	}
	if len(decls) == 0 {
		return script
	}
	// declare the new constants just before the line of their earliest use (every
	// top-level form of a script is one line), after the sorts they mention
	at := strings.LastIndexByte(body[:minI], '\n') + 1
	body = body[:at] + strings.Join(decls, "") + body[at:]
	decls = nil
	body = strings.ReplaceAll(body, "((as\x01const ", open)
	return script[:first] + strings.Join(decls, "") + body
}

// raceSolvers runs every solver on the script and takes the first verdict.
func raceSolvers(script string, timeoutS int, r solveResult) solveResult {
	ctx, cancel := context.WithCancel(context.Background())
	defer cancel()
	ch := make(chan solveResult, len(solvers))
	for i, s := range solvers {
		go func(i int, s solverSpec) {
			scr := script
			if s.name == "cvc5" {
				scr = constArraysForCVC5(scr)
			}
			ch <- runSolver(ctx, s, scr, timeoutS)
		}(i, s)
	}
	var last solveResult = r
	var total float64 = r.time
	for range solvers {
		res := <-ch
		if res.verdict != "unknown" {
			res.time += total
			return res
		}
		// prefer the report of a solver that accepted the script over a parse error
		lastErr := strings.Contains(last.output, "(error ")
		resErr := strings.Contains(res.output, "(error ")
		if last.output == "" || (lastErr && !resErr) || (lastErr == resErr && len(res.output) > len(last.output)) {
			last = res
		}
	}
	last.verdict = "unknown"
	last.time = total + float64(timeoutS)
	return last
}

type SolveStats struct {
	mu        sync.Mutex
	bySolver  map[string]float64
	nBySolver map[string]int
	// second-solver cross-check (thorough tier)
	crossChecked, crossAgreed int
	crossDisagree             []string
}

// CrossCheck switches the second-solver cross-check on.
var CrossCheck bool

func (v *Verifier) solveAll(x *Exec, obls []*Obligation, timeoutS int, stats *SolveStats) {
	sem := make(chan struct{}, 16)
	var wg sync.WaitGroup
	// identical queries are solved once
	type key struct{ s string }
	cache := map[string]*Obligation{}
	var dup []*Obligation
	for _, o := range obls {
		o.Script = v.buildScript(x, o, true)
		sum := sha1.Sum([]byte(o.Script))
		o.scriptHash = string(sum[:])
		if prev, ok := cache[o.scriptHash]; ok {
			_ = prev
			dup = append(dup, o)
			o.Script = "" // the first obligation with this text keeps it
			continue
		}
		cache[o.scriptHash] = o
		wg.Add(1)
		sem <- struct{}{}
		go func(o *Obligation) {
			defer wg.Done()
			defer func() { <-sem }()
			var r solveResult
			if o.ExpectSat {
				// vacuity probes only need "not refuted": one solver, short budget
				r = runSolver(context.Background(), solvers[0], o.Script, 2)
			} else {
				// first pass: the fast solver alone, briefly (most obligations end here)
				q := 3
				if timeoutS < q {
					q = timeoutS
				}
				r = runSolver(context.Background(), solvers[0], o.Script, q)
			}
			o.Solver, o.Time, o.Output = r.solver, r.time, r.output
			if strings.Contains(r.output, "(error ") && r.verdict == "unknown" && !strings.Contains(firstLine(r.output), "model is not available") && !(r.solver == "cvc5" && strings.Contains(r.output, "expected a value")) {
				fmt.Fprintf(os.Stderr, "gocv: solver error on %s: %s\n", o.Label, firstLine(r.output))
			}
			if o.ExpectSat {
				switch r.verdict {
				case "unsat":
					o.Status = "failed"
					if o.Kind == "reach" {
						o.Status = "infeasible"
					}
				default:
					o.Status = "discharged"
				}
			} else {
				switch r.verdict {
				case "unsat":
					o.Status = "discharged"
				case "sat":
					o.Status = "failed"
					o.Model = r.output
				default:
					o.Status = "unknown"
				}
			}
			if stats != nil {
				stats.mu.Lock()
				stats.bySolver[r.solver] += r.time
				stats.nBySolver[r.solver]++
				stats.mu.Unlock()
			}
			// thorough tier: one discharged obligation in eight is put to a second,
			// independent solver; a `sat` there would be a solver disagreement
			if CrossCheck && stats != nil && o.Status == "discharged" && !o.ExpectSat && o.scriptHash != "" && o.scriptHash[0]%8 == 0 {
				other := solvers[1]
				if r.solver == other.name {
					other = solvers[0]
				}
				r2 := runSolver(context.Background(), other, o.Script, 5)
				stats.mu.Lock()
				stats.crossChecked++
				switch r2.verdict {
				case "unsat":
					stats.crossAgreed++
				case "sat":
					stats.crossDisagree = append(stats.crossDisagree, o.Label+" ("+r.solver+" unsat, "+other.name+" sat)")
				}
				stats.mu.Unlock()
			}
			if (o.Status == "discharged" || o.Status == "infeasible") && !KeepScripts {
				o.Script = "" // thousands of scripts of ~100 KB each are not worth keeping
			}
		}(o)
	}
	wg.Wait()
	// second pass: what the fast pass left open is raced on all solvers, five at a
	// time (three processes each), so that the machine is not oversubscribed
	{
		sem1 := make(chan struct{}, 5)
		var wg1 sync.WaitGroup
		raced := 0
		for _, o := range obls {
			if o.Status != "unknown" || o.ExpectSat {
				continue
			}
			if c, ok := cache[o.scriptHash]; ok && c != o {
				continue
			}
			// a function that leaves this many obligations open is broken, not slow:
			// the rest are reported as they stand instead of being raced for minutes
			raced++
			if raced > 600 {
				continue
			}
			wg1.Add(1)
			sem1 <- struct{}{}
			go func(o *Obligation) {
				defer wg1.Done()
				defer func() { <-sem1 }()
				r := raceSolvers(o.Script, timeoutS, solveResult{solver: o.Solver, time: o.Time, output: o.Output, verdict: "unknown"})
				o.Solver, o.Time, o.Output = r.solver, r.time, r.output
				switch r.verdict {
				case "unsat":
					o.Status = "discharged"
				case "sat":
					o.Status = "failed"
					o.Model = r.output
				}
				if stats != nil {
					stats.mu.Lock()
					stats.bySolver[r.solver] += r.time
					stats.nBySolver[r.solver]++
					stats.mu.Unlock()
				}
			}(o)
		}
		wg1.Wait()
	}
	// second chance: obligations left undecided are retried with a longer budget,
	// a few at a time, so that a loaded machine does not turn into a false alarm
	var retry []*Obligation
	for _, o := range obls {
		if o.Status == "unknown" && !o.ExpectSat && !strings.Contains(o.Output, "(error ") {
			if NoRetryLabels[stableLabel(o.Label)] || NoRetryLabels[findingLabel(o.Label)] {
				continue // a recorded known finding: no point in a longer search for a proof
			}
			retry = append(retry, o)
		}
	}
	if len(retry) > 0 && len(retry) <= 24 {
		sem2 := make(chan struct{}, 4)
		var wg2 sync.WaitGroup
		for _, o := range retry {
			if _, isDup := cache[o.scriptHash]; isDup && cache[o.scriptHash] != o {
				continue
			}
			wg2.Add(1)
			sem2 <- struct{}{}
			go func(o *Obligation) {
				defer wg2.Done()
				defer func() { <-sem2 }()
				r := solve(o.Script, timeoutS*4, true)
				o.Solver, o.Time, o.Output = r.solver, o.Time+r.time, r.output
				switch r.verdict {
				case "unsat":
					o.Status = "discharged"
				case "sat":
					o.Status = "failed"
					o.Model = r.output
				}
			}(o)
		}
		wg2.Wait()
	}
	for _, o := range dup {
		p := cache[o.scriptHash]
		o.Status, o.Solver, o.Time, o.Output, o.Model = p.Status, p.Solver, 0, p.Output, p.Model
		if p.Status != "discharged" {
			o.Script = p.Script
		}
	}
}

// NoRetryLabels: stable labels of obligations recorded as known findings.
var NoRetryLabels = map[string]bool{}

// Solve discharges the obligations of one function and settles the vacuity probes.
func (v *Verifier) Solve(res *FuncResult, timeoutS int, stats *SolveStats) {
	v.solveAll(res.x, res.Obligations, timeoutS, stats)
	settleReach(res)
}

// finish numbers the labels so that every obligation has a unique, stable name.
// settleReach folds the per-path reachability probes into one vacuity
// obligation per function: at least one return path must be feasible.
func settleReach(res *FuncResult) {
	var kept []*Obligation
	feasible, total := 0, 0
	var probe *Obligation
	for _, o := range res.Obligations {
		if o.Kind != "reach" {
			kept = append(kept, o)
			continue
		}
		total++
		if o.Status != "infeasible" {
			feasible++
		}
		if probe == nil || (o.Status != "infeasible" && probe.Status == "infeasible") {
			probe = o
		}
	}
	res.FeasibleReturns, res.ReturnPaths = feasible, total
	if probe != nil {
		probe.Kind = "vacuity"
		if feasible == 0 {
			probe.Status = "failed"
			probe.Output = "every return path has contradictory hypotheses: the contract or an invariant is vacuous"
		} else {
			probe.Status = "discharged"
		}
		kept = append(kept, probe)
	}
	res.Obligations = kept
}

func (v *Verifier) finish(x *Exec, res *FuncResult) {
	count := map[string]int{}
	for _, o := range res.Obligations {
		count[o.Label]++
	}
	seen := map[string]int{}
	for _, o := range res.Obligations {
		if count[o.Label] > 1 {
			seen[o.Label]++
			o.Label = fmt.Sprintf("%s#%d", o.Label, seen[o.Label])
		}
	}
}

func firstLine(s string) string {
	for _, l := range strings.Split(s, "\n") {
		if strings.Contains(l, "(error") {
			return l
		}
	}
	return ""
}
