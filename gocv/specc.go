package main

import (
	"fmt"
	"go/constant"
	"go/types"
	"math/big"
	"strconv"
	"strings"

	"golang.org/x/tools/go/ssa"
)

// Env is the environment in which a spec expression is compiled.
type Env struct {
	x      *Exec
	st     *State
	heap   map[string]*Term
	vars   map[string]Value
	lookup func(name string) (Value, bool)
	bound  map[string]TV
	old    *Snapshot
	alloc  *Term
	idx    func() *Term
	rlen   func() *Term
	visited func() *Term
	inOld  bool
	clause *Clause
	pkg    *types.Package
}

type specError struct{ msg string }

func (e *Env) fail(f string, args ...any) {
	where := ""
	if e.clause != nil {
		where = fmt.Sprintf("%s:%d: ", e.clause.File, e.clause.Line)
	}
	panic(specError{where + fmt.Sprintf(f, args...)})
}

func (e *Env) child() *Env {
	n := *e
	n.bound = map[string]TV{}
	for k, v := range e.bound {
		n.bound[k] = v
	}
	return &n
}

// withHeap evaluates against another heap (old()).
func (e *Env) asOld() *Env {
	if e.old == nil {
		e.fail("old() used where no pre-state exists")
	}
	n := *e
	n.heap = e.old.heap
	n.alloc = e.old.alloc
	n.inOld = true
	if e.old.vars != nil {
		ov := e.old.vars
		prevLookup := e.lookup
		prevVars := e.vars
		n.vars = nil
		n.lookup = func(name string) (Value, bool) {
			if v, ok := ov[name]; ok {
				return v, true
			}
			if prevVars != nil {
				if v, ok := prevVars[name]; ok {
					return v, true
				}
			}
			if prevLookup != nil {
				return prevLookup(name)
			}
			return nil, false
		}
	}
	return &n
}

func (x *Exec) compileBool(env *Env, e SExpr, cl *Clause) *Term {
	env.clause = cl
	defer func() {
		if r := recover(); r != nil {
			if _, ok := r.(specError); ok {
				panic(r)
			}
			if _, ok := r.(unsupported); ok {
				panic(r)
			}
			panic(specError{fmt.Sprintf("%s:%d: internal error compiling %q: %v", cl.File, cl.Line, cl.Text, r)})
		}
	}()
	v := x.compile(env, e)
	tv, ok := v.(TV)
	if !ok || tv.T.Sort != SBool {
		env.fail("clause %q is not boolean", cl.Text)
	}
	return tv.T
}

func (x *Exec) compileInt(env *Env, e SExpr, cl *Clause) *Term {
	env.clause = cl
	v := x.compile(env, e)
	tv, ok := v.(TV)
	if !ok || tv.T.Sort != SInt {
		env.fail("clause %q is not an integer", cl.Text)
	}
	return tv.T
}

var tInt = types.Typ[types.Int]
var tBool = types.Typ[types.Bool]
var tByte = types.Typ[types.Uint8]
var tString = types.Typ[types.String]
var tFloat = types.Typ[types.Float64]

// mathInt marks spec-level integers (unbounded).
type mathIntT struct{ types.Type }

func (e *Env) resolveType(name string) types.Type {
	switch name {
	case "int":
		return tInt
	case "byte", "uint8":
		return tByte
	case "bool":
		return tBool
	case "string":
		return tString
	case "float64":
		return tFloat
	case "struct{}":
		return types.NewStruct(nil, nil)
	case "any":
		return types.Universe.Lookup("any").Type()
	case "error":
		return types.Universe.Lookup("error").Type()
	case "rune", "int32":
		return types.Typ[types.Int32]
	case "int64":
		return types.Typ[types.Int64]
	case "uint32":
		return types.Typ[types.Uint32]
	case "uint64":
		return types.Typ[types.Uint64]
	case "uint":
		return types.Typ[types.Uint]
	}
	if strings.HasPrefix(name, "[]") {
		return types.NewSlice(e.resolveType(name[2:]))
	}
	if strings.HasPrefix(name, "*") {
		return types.NewPointer(e.resolveType(name[1:]))
	}
	if strings.HasPrefix(name, "map[") {
		depth := 0
		for i := 3; i < len(name); i++ {
			if name[i] == '[' {
				depth++
			} else if name[i] == ']' {
				depth--
				if depth == 0 {
					return types.NewMap(e.resolveType(name[4:i]), e.resolveType(name[i+1:]))
				}
			}
		}
	}
	pkg := e.pkg
	if pkg == nil && e.x.fn != nil && e.x.fn.Pkg != nil {
		pkg = e.x.fn.Pkg.Pkg
	}
	if i := strings.Index(name, "."); i >= 0 {
		pn, tn := name[:i], name[i+1:]
		if pkg != nil {
			for _, imp := range pkg.Imports() {
				if imp.Name() == pn {
					if o := imp.Scope().Lookup(tn); o != nil {
						return o.Type()
					}
				}
			}
		}
		for _, p := range e.x.v.prog.AllPackages() {
			if p.Pkg.Name() == pn {
				if o := p.Pkg.Scope().Lookup(tn); o != nil {
					if _, ok := o.(*types.TypeName); ok {
						return o.Type()
					}
				}
			}
		}
	} else if pkg != nil {
		if o := pkg.Scope().Lookup(name); o != nil {
			if _, ok := o.(*types.TypeName); ok {
				return o.Type()
			}
		}
		// a type declared inside a function of the package
		var find func(s *types.Scope) types.Type
		find = func(s *types.Scope) types.Type {
			if o := s.Lookup(name); o != nil {
				if _, ok := o.(*types.TypeName); ok {
					return o.Type()
				}
			}
			for i := 0; i < s.NumChildren(); i++ {
				if t := find(s.Child(i)); t != nil {
					return t
				}
			}
			return nil
		}
		if t := find(pkg.Scope()); t != nil {
			return t
		}
	}
	e.fail("unknown type %q", name)
	return nil
}

func (x *Exec) compile(env *Env, e SExpr) Value {
	switch e := e.(type) {
	case *SLit:
		return x.compileLit(env, e)
	case *SIdent:
		if b, ok := env.bound[e.Name]; ok {
			return b
		}
		if env.vars != nil {
			if v, ok := env.vars[e.Name]; ok {
				return v
			}
		}
		if env.lookup != nil {
			if v, ok := env.lookup(e.Name); ok {
				return v
			}
		}
		if v, ok := x.specConst(env, e.Name); ok {
			return v
		}
		env.fail("unknown identifier %q", e.Name)
	case *SUnary:
		v := x.compileTV(env, e.X)
		switch e.Op {
		case "!":
			return TV{Not(v.T), tBool}
		case "-":
			switch {
			case v.T.Sort == SInt:
				return TV{Neg(v.T), tInt}
			case v.T.Sort.IsFP():
				return TV{App("fp.neg", v.T.Sort, v.T), v.Ty}
			}
		case "^":
			if v.T.Sort.IsBV() {
				return TV{App("bvnot", v.T.Sort, v.T), v.Ty}
			}
		}
		env.fail("unary %s on sort %s", e.Op, v.T.Sort)
	case *SBinary:
		return x.compileBinary(env, e)
	case *SCond:
		c := x.compileTV(env, e.C)
		a := x.compileTV(env, e.A)
		b := x.compileTV(env, e.B)
		a, b = x.unify(env, a, b)
		return TV{Ite(c.T, a.T, b.T), a.Ty}
	case *SQuant:
		if e.UseWitness {
			ch := env.child()
			for i, v := range e.Vars {
				ty := ch.resolveType(v.Type)
				var w TV
				func() {
					// on a path where the witness expression means nothing (a local that
					// does not exist on an early return) any value will do: the clause
					// is then provable only if it does not depend on the witness
					defer func() {
						if r := recover(); r != nil {
							if _, ok := r.(specError); !ok {
								panic(r)
							}
							w = TV{x.fresh("nowitness", x.ti.SortOf(ty)), ty}
						}
					}()
					w = x.compileTV(env, e.Witness[i])
				}()
				if x.ti.SortOf(ty) != w.T.Sort {
					env.fail("witness for %s has sort %s, want %s", v.Name, w.T.Sort, x.ti.SortOf(ty))
				}
				ch.bound[v.Name] = TV{w.T, ty}
			}
			return x.compileTV(ch, e.Body)
		}
		ch := env.child()
		var bound []*Term
		var guards []*Term
		for _, v := range e.Vars {
			ty := ch.resolveType(v.Type)
			sort := x.ti.SortOf(ty)
			x.counter++
			name := fmt.Sprintf("%s!b%d", v.Name, x.counter)
			bt := Atom(name, sort)
			bound = append(bound, bt)
			ch.bound[v.Name] = TV{bt, ty}
			if b, ok := ty.Underlying().(*types.Basic); ok && b.Info()&types.IsInteger != 0 && sort == SInt && v.Type != "int" {
				bits, signed, _ := intBits(b)
				lo, hi := intRange(bits, signed)
				guards = append(guards, Le(IntLitBig(lo), bt), Le(bt, IntLitBig(hi)))
			}
		}
		body := x.compileTV(ch, e.Body)
		if body.T.Sort != SBool {
			env.fail("quantifier body is not boolean")
		}
		op := "forall"
		bt := body.T
		if e.All {
			bt = Implies(And(guards...), bt)
		} else {
			op = "exists"
			bt = And(append(guards, bt)...)
		}
		if bt.IsTrue() || bt.IsFalse() {
			return TV{bt, tBool}
		}
		if len(e.Trig) > 0 {
			// explicit multi-pattern: the quantifier is instantiated only where all
			// the listed terms occur (no index normalisation)
			var pats []*Term
			for _, te := range e.Trig {
				pats = append(pats, x.compileTV(ch, te).T)
			}
			return TV{mkQuantPats(op, bound, bt, pats), tBool}
		}
		return TV{MkQuant(op, bound, bt), tBool}
	case *SIndex:
		base := x.compileTV(env, e.X)
		idx := x.compileTV(env, e.I)
		switch u := base.Ty.Underlying().(type) {
		case *types.Slice:
			return TV{x.specHeapRead(env, u.Elem(), Sel("s-ref", base.T), Add(Sel("s-off", base.T), idx.T)), u.Elem()}
		case *types.Basic:
			if base.T.Sort == SStr {
				return TV{App("sat", SInt, base.T, idx.T), tByte}
			}
		case *types.Map:
			ks := x.ti.SortOf(u.Key())
			_, vk, _ := x.ti.MapKeys(u)
			vals := x.specHeapByKey(env, vk, ArraySort(SInt, ArraySort(ks, x.ti.SortOf(u.Elem()))))
			return TV{Select(Select(vals, base.T), idx.T), u.Elem()}
		case *types.Array:
			return TV{Select(base.T, idx.T), u.Elem()}
		case *types.Pointer:
			if arr, ok := u.Elem().Underlying().(*types.Array); ok {
				return TV{x.specHeapRead(env, arr.Elem(), Sel("p-ref", base.T), Add(Sel("p-idx", base.T), idx.T)), arr.Elem()}
			}
		}
		env.fail("cannot index %s", base.Ty)
	case *SSliceE:
		base := x.compileTV(env, e.X)
		var lo, hi *Term
		if e.Lo != nil {
			lo = x.compileTV(env, e.Lo).T
		}
		if e.Hi != nil {
			hi = x.compileTV(env, e.Hi).T
		}
		return x.sliceValue(env.st, base, base.Ty, base.Ty, lo, hi, nil, 0, false)
	case *SField:
		return x.compileField(env, e)
	case *SCall:
		return x.compileCall(env, e)
	}
	env.fail("unsupported spec expression %T", e)
	return nil
}

func (x *Exec) compileTV(env *Env, e SExpr) TV {
	v := x.compile(env, e)
	switch v := v.(type) {
	case TV:
		return v
	case HeapPtr:
		if len(v.Path) == 0 {
			return TV{v.Base, types.NewPointer(v.Ty)}
		}
	}
	env.fail("expression does not denote a first-class value (%T)", v)
	return TV{}
}

func (x *Exec) specHeapRead(env *Env, elem types.Type, ref, idx *Term) *Term {
	key := x.ti.HeapKey(elem)
	h, ok := env.heap[key]
	if !ok {
		// untouched heap: same in every state
		_, h = x.heapTerm(env.st, elem)
		if env.inOld {
			if oh, ok := env.old.heap[key]; ok {
				h = oh
			}
		}
	}
	return Select(Select(h, ref), idx)
}

func (x *Exec) specHeapByKey(env *Env, key string, sort Sort) *Term {
	if h, ok := env.heap[key]; ok {
		return h
	}
	h := x.heapByKey(env.st, key, sort)
	if env.inOld {
		if oh, ok := env.old.heap[key]; ok {
			return oh
		}
	}
	return h
}

func (x *Exec) compileLit(env *Env, e *SLit) Value {
	switch e.Kind {
	case "int":
		n, ok := new(big.Int).SetString(e.Val, 0)
		if !ok {
			env.fail("bad integer %q", e.Val)
		}
		return TV{IntLitBig(n), tInt}
	case "char":
		r, _, _, err := strconv.UnquoteChar(e.Val[1:len(e.Val)-1], '\'')
		if err != nil {
			env.fail("bad char literal %s", e.Val)
		}
		return TV{IntLit(int64(r)), types.Typ[types.Int32]}
	case "string":
		s, err := strconv.Unquote(e.Val)
		if err != nil {
			env.fail("bad string literal %s", e.Val)
		}
		return TV{x.strLit(s), tString}
	case "float":
		f, err := strconv.ParseFloat(e.Val, 64)
		if err != nil {
			env.fail("bad float literal %s", e.Val)
		}
		return TV{fpLit(f), tFloat}
	case "bool":
		if e.Val == "true" {
			return TV{True, tBool}
		}
		return TV{False, tBool}
	case "nil":
		return TV{Atom("opq-nil", SOpq), types.Typ[types.UntypedNil]}
	}
	env.fail("literal kind %s", e.Kind)
	return nil
}

// specConst resolves package-level constants and a few named values.
func (x *Exec) specConst(env *Env, name string) (Value, bool) {
	switch name {
	case "MaxInt64":
		return TV{IntLitBig(new(big.Int).Sub(twoTo63, big.NewInt(1))), tInt}, true
	case "MinInt64":
		return TV{IntLitBig(new(big.Int).Neg(twoTo63)), tInt}, true
	case "alloc":
		return TV{env.alloc, tInt}, true
	}
	pkg := env.pkg
	if pkg == nil && x.fn != nil && x.fn.Pkg != nil {
		pkg = x.fn.Pkg.Pkg
	}
	if pkg != nil {
		if o := pkg.Scope().Lookup(name); o != nil {
			switch o := o.(type) {
			case *types.Const:
				c := ssa.NewConst(o.Val(), o.Type())
				if o.Val().Kind() == constant.Int || o.Val().Kind() == constant.String || o.Val().Kind() == constant.Bool || o.Val().Kind() == constant.Float {
					return x.constValue(c), true
				}
			case *types.Var:
				// package-level variable: read through its global
				for _, p := range x.v.prog.AllPackages() {
					if p.Pkg == pkg {
						if g, ok := p.Members[name].(*ssa.Global); ok {
							ptr := TV{x.globalPtr(g), g.Type()}
							elem := g.Type().Underlying().(*types.Pointer).Elem()
							return TV{x.specHeapRead(env, elem, Sel("p-ref", ptr.T), IntLit(0)), elem}, true
						}
					}
				}
			}
		}
	}
	return nil, false
}

func (x *Exec) unify(env *Env, a, b TV) (TV, TV) {
	if a.T.Sort == b.T.Sort {
		return a, b
	}
	// untyped nil
	if a.T.Op == "opq-nil" && a.T.Sort == SOpq {
		return TV{x.ti.zeroOfSort(b.T.Sort, b.Ty), b.Ty}, b
	}
	if b.T.Op == "opq-nil" && b.T.Sort == SOpq {
		return a, TV{x.ti.zeroOfSort(a.T.Sort, a.Ty), a.Ty}
	}
	// integer literal against bit-vector / float
	if v, ok := a.T.IntVal(); ok {
		if b.T.Sort.IsBV() {
			return TV{bvLit(v, b.T.Sort.BVWidth()), b.Ty}, b
		}
		if b.T.Sort == SF64 {
			f, _ := new(big.Float).SetInt(v).Float64()
			return TV{fpLit(f), b.Ty}, b
		}
	}
	if v, ok := b.T.IntVal(); ok {
		if a.T.Sort.IsBV() {
			return a, TV{bvLit(v, a.T.Sort.BVWidth()), a.Ty}
		}
		if a.T.Sort == SF64 {
			f, _ := new(big.Float).SetInt(v).Float64()
			return a, TV{fpLit(f), a.Ty}
		}
	}
	env.fail("operands have different sorts: %s vs %s", a.T.Sort, b.T.Sort)
	return a, b
}

func (x *Exec) compileBinary(env *Env, e *SBinary) Value {
	switch e.Op {
	case "==>":
		a := x.compileTV(env, e.X)
		if a.T.IsFalse() {
			return TV{True, tBool}
		}
		b := x.compileTV(env, e.Y)
		return TV{Implies(a.T, b.T), tBool}
	case "<==>":
		a, b := x.compileTV(env, e.X), x.compileTV(env, e.Y)
		return TV{Eq(a.T, b.T), tBool}
	case "&&":
		a, b := x.compileTV(env, e.X), x.compileTV(env, e.Y)
		return TV{And(a.T, b.T), tBool}
	case "||":
		a, b := x.compileTV(env, e.X), x.compileTV(env, e.Y)
		return TV{Or(a.T, b.T), tBool}
	}
	a, b := x.compileTV(env, e.X), x.compileTV(env, e.Y)
	a, b = x.unify(env, a, b)
	s := a.T.Sort
	switch e.Op {
	case "===", "!==":
		r := Eq(a.T, b.T)
		if e.Op == "!==" {
			r = Not(r)
		}
		return TV{r, tBool}
	case "==", "!=":
		var r *Term
		switch {
		case s == SSlice:
			if a.T.String() == NilSlice.String() {
				r = Eq(Sel("s-ref", b.T), IntLit(0))
			} else if b.T.String() == NilSlice.String() {
				r = Eq(Sel("s-ref", a.T), IntLit(0))
			} else {
				r = x.sliceContentEq(env, a, b)
			}
		case s.IsFP():
			r = App("fp.eq", SBool, a.T, b.T)
		default:
			r = Eq(a.T, b.T)
		}
		if e.Op == "!=" {
			r = Not(r)
		}
		return TV{r, tBool}
	case "<", "<=", ">", ">=":
		switch {
		case s == SInt:
			return TV{intCmp(e.Op, a.T, b.T), tBool}
		case s.IsFP():
			m := map[string]string{"<": "fp.lt", "<=": "fp.leq", ">": "fp.gt", ">=": "fp.geq"}
			return TV{App(m[e.Op], SBool, a.T, b.T), tBool}
		case s.IsBV():
			m := map[string]string{"<": "bvult", "<=": "bvule", ">": "bvugt", ">=": "bvuge"}
			return TV{App(m[e.Op], SBool, a.T, b.T), tBool}
		case s == SStr:
			return TV{intCmp(e.Op, App("srank", SInt, a.T), App("srank", SInt, b.T)), tBool}
		}
	case "+", "-", "*":
		switch {
		case s == SInt:
			return TV{intBin(e.Op, a.T, b.T), tInt}
		case s.IsFP():
			m := map[string]string{"+": "fp.add", "-": "fp.sub", "*": "fp.mul"}
			return TV{App(m[e.Op], s, Atom("RNE", "RoundingMode"), a.T, b.T), a.Ty}
		case s.IsBV():
			m := map[string]string{"+": "bvadd", "-": "bvsub", "*": "bvmul"}
			return TV{App(m[e.Op], s, a.T, b.T), a.Ty}
		case s == SStr && e.Op == "+":
			return x.concat(env.st, a.T, b.T, tString)
		}
	case "/", "%":
		switch {
		case s == SInt:
			fn := "godiv"
			if e.Op == "%" {
				fn = "gomod"
			}
			return TV{App(fn, SInt, a.T, b.T), tInt}
		case s.IsFP() && e.Op == "/":
			return TV{App("fp.div", s, Atom("RNE", "RoundingMode"), a.T, b.T), a.Ty}
		case s.IsBV():
			if e.Op == "/" {
				return TV{App("bvudiv", s, a.T, b.T), a.Ty}
			}
			return TV{App("bvurem", s, a.T, b.T), a.Ty}
		}
	case "&", "|", "^", "&^":
		if s.IsBV() {
			switch e.Op {
			case "&":
				return TV{App("bvand", s, a.T, b.T), a.Ty}
			case "|":
				return TV{App("bvor", s, a.T, b.T), a.Ty}
			case "^":
				return TV{App("bvxor", s, a.T, b.T), a.Ty}
			default:
				return TV{App("bvand", s, a.T, App("bvnot", s, b.T)), a.Ty}
			}
		}
	case "<<", ">>":
		if s.IsBV() {
			op := "bvshl"
			if e.Op == ">>" {
				op = "bvlshr"
			}
			return TV{App(op, s, a.T, b.T), a.Ty}
		}
	}
	env.fail("operator %s on sort %s", e.Op, s)
	return nil
}

func (x *Exec) sliceContentEq(env *Env, a, b TV) *Term {
	elem := a.Ty.Underlying().(*types.Slice).Elem()
	x.counter++
	j := Atom(fmt.Sprintf("j!e%d", x.counter), SInt)
	la, lb := Sel("s-len", a.T), Sel("s-len", b.T)
	read := func(v TV) *Term {
		if h := x.oldHeapOf[v.T]; h != nil {
			e2 := *env
			e2.heap = h
			e2.inOld = true
			return x.specHeapRead(&e2, elem, Sel("s-ref", v.T), Add(Sel("s-off", v.T), j))
		}
		return x.specHeapRead(env, elem, Sel("s-ref", v.T), Add(Sel("s-off", v.T), j))
	}
	ea := read(a)
	eb := read(b)
	var eq *Term
	if x.ti.SortOf(elem).IsFP() {
		eq = Eq(ea, eb) // bitwise identity for copies
	} else {
		eq = Eq(ea, eb)
	}
	return And(Eq(la, lb), MkQuant("forall", []*Term{j}, Implies(And(Le(IntLit(0), j), Lt(j, la)), eq)))
}

func (x *Exec) compileField(env *Env, e *SField) Value {
	if id, ok := e.X.(*SIdent); ok {
		if v, ok := x.qualifiedGlobal(env, id.Name, e.Name); ok {
			return v
		}
	}
	base := x.compile(env, e.X)
	tv, ok := base.(TV)
	if !ok {
		env.fail("field %s of %T", e.Name, base)
	}
	ty := tv.Ty
	t := tv.T
	if pt, ok := ty.Underlying().(*types.Pointer); ok {
		ty = pt.Elem()
		t = x.specHeapRead(env, ty, Sel("p-ref", t), Sel("p-idx", t))
	}
	st, ok := ty.Underlying().(*types.Struct)
	if !ok {
		env.fail("field %s of non-struct %s", e.Name, ty)
	}
	x.ti.SortOf(ty) // ensure declared
	dt := datatypes[t.Sort]
	for i := 0; i < st.NumFields(); i++ {
		if st.Field(i).Name() == e.Name {
			return TV{Sel(dt.fields[i], t), st.Field(i).Type()}
		}
	}
	// promoted fields through embedded structs
	for i := 0; i < st.NumFields(); i++ {
		f := st.Field(i)
		if f.Embedded() {
			if est, ok := f.Type().Underlying().(*types.Struct); ok {
				for j := 0; j < est.NumFields(); j++ {
					if est.Field(j).Name() == e.Name {
						inner := Sel(dt.fields[i], t)
						idt := datatypes[inner.Sort]
						return TV{Sel(idt.fields[j], inner), est.Field(j).Type()}
					}
				}
			}
		}
	}
	env.fail("no field %s in %s", e.Name, ty)
	return nil
}

func (x *Exec) compileCall(env *Env, e *SCall) Value {
	argTV := func(i int) TV {
		if i >= len(e.Args) {
			env.fail("%s: missing argument %d", e.Fun, i)
		}
		return x.compileTV(env, e.Args[i])
	}
	if i := strings.Index(e.Fun, "."); i > 0 && !isPkgName(e.Fun[:i]) {
		// ident.M(args) where ident is a variable in scope: a method call on its value
		if v, ok := env.resolveIdent(e.Fun[:i]); ok {
			if tv, ok := v.(TV); ok {
				if _, isIface := tv.Ty.Underlying().(*types.Interface); isIface {
					ne := &SCall{Fun: e.Fun[i:], Args: append([]SExpr{&SIdent{e.Fun[:i]}}, e.Args...)}
					return x.compileCall(env, ne)
				}
			}
		}
	}
	if strings.HasPrefix(e.Fun, ".") {
		// x.M(args): the value an interface method call returns (first result)
		recv := argTV(0)
		it, ok := recv.Ty.Underlying().(*types.Interface)
		if !ok {
			env.fail("method call %s on non-interface %s", e.Fun, recv.Ty)
		}
		var m *types.Func
		for i := 0; i < it.NumMethods(); i++ {
			if it.Method(i).Name() == e.Fun[1:] {
				m = it.Method(i)
			}
		}
		if m == nil {
			env.fail("%s has no method %s", recv.Ty, e.Fun[1:])
		}
		var ats []*Term
		for i := 1; i < len(e.Args); i++ {
			ats = append(ats, argTV(i).T)
		}
		rs, tys, ok := x.invokeApp(recv.Ty, m, recv.T, ats)
		if !ok {
			env.fail("method call %s: unsupported signature or argument sorts", e.Fun)
		}
		return TV{rs[0], tys[0]}
	}
	switch e.Fun {
	case "old":
		oe := env.asOld()
		v := x.compile(oe, e.Args[0])
		if tv, ok := v.(TV); ok && tv.T.Sort == SSlice {
			// remember the heap this slice value was evaluated in: content
			// comparisons read its elements there (keyed by a private copy of the term)
			cp := *tv.T
			tv.T = &cp
			if x.oldHeapOf == nil {
				x.oldHeapOf = map[*Term]map[string]*Term{}
			}
			x.oldHeapOf[tv.T] = oe.heap
			return tv
		}
		return v
	case "len":
		a := argTV(0)
		switch a.T.Sort {
		case SSlice:
			return TV{Sel("s-len", a.T), tInt}
		case SStr:
			return TV{App("slen", SInt, a.T), tInt}
		case SInt:
			if mt, ok := a.Ty.Underlying().(*types.Map); ok {
				_, _, lk := x.ti.MapKeys(mt)
				ln := x.specHeapByKey(env, lk, ArraySort(SInt, SInt))
				return TV{Ite(Eq(a.T, IntLit(0)), IntLit(0), Select(ln, a.T)), tInt}
			}
		}
		if arr, ok := a.Ty.Underlying().(*types.Array); ok {
			return TV{IntLit(arr.Len()), tInt}
		}
		env.fail("len of %s", a.Ty)
	case "cap":
		return TV{Sel("s-cap", argTV(0).T), tInt}
	case "off":
		return TV{Sel("s-off", argTV(0).T), tInt}
	case "end":
		a := argTV(0)
		return TV{Add(Sel("s-off", a.T), Sel("s-len", a.T)), tInt}
	case "ref":
		a := argTV(0)
		switch a.T.Sort {
		case SSlice:
			return TV{Sel("s-ref", a.T), tInt}
		case SPtr:
			return TV{Sel("p-ref", a.T), tInt}
		case SInt:
			return TV{a.T, tInt}
		}
		env.fail("ref of %s", a.Ty)
	case "pidx":
		return TV{Sel("p-idx", argTV(0).T), tInt}
	case "sub": // sub(a, b): a is a sub-slice of b (same backing array, within b's bounds)
		a, b := argTV(0), argTV(1)
		return TV{And(Eq(Sel("s-ref", a.T), Sel("s-ref", b.T)), Le(Sel("s-off", b.T), Sel("s-off", a.T)),
			Le(Add(Sel("s-off", a.T), Sel("s-len", a.T)), Add(Sel("s-off", b.T), Sel("s-len", b.T)))), tBool}
	case "fresh":
		a := argTV(0)
		if env.old == nil {
			env.fail("fresh() needs a pre-state")
		}
		var ref *Term
		switch a.T.Sort {
		case SSlice:
			ref = Sel("s-ref", a.T)
		case SPtr:
			ref = Sel("p-ref", a.T)
		case SInt:
			ref = a.T
		default:
			env.fail("fresh of %s", a.Ty)
		}
		return TV{Lt(env.old.alloc, ref), tBool}
	case "unchanged":
		// unchanged(o1, o2, …): every object that existed at function entry, other than
		// the listed ones, has the contents it had at entry — in every heap written so far.
		if env.old == nil {
			env.fail("unchanged() needs a pre-state")
		}
		var except []modObj
		for _, a := range e.Args {
			except = append(except, x.modObjOf(env, a)...)
		}
		var conj []*Term
		for _, key := range sortedHeapKeys(env.heap) {
			h := env.heap[key]
			base, ok := env.old.heap[key]
			if !ok || h.String() == base.String() {
				continue
			}
			x.counter++
			r := Atom(fmt.Sprintf("r!u%d", x.counter), SInt)
			cond := []*Term{Lt(IntLit(0), r), Le(r, env.old.alloc)}
			for _, m := range except {
				if m.key == key {
					cond = append(cond, m.excludes(r))
				}
			}
			conj = append(conj, &Term{Op: "forall", Sort: SBool, Bound: []*Term{r}, Args: []*Term{Implies(And(cond...), Eq(Select(h, r), Select(base, r)))}, Pats: []*Term{Select(h, r)}})
		}
		return TV{And(conj...), tBool}
	case "has":
		m, k := argTV(0), argTV(1)
		mt, ok := m.Ty.Underlying().(*types.Map)
		if !ok {
			env.fail("has() on non-map %s", m.Ty)
		}
		dk, _, _ := x.ti.MapKeys(mt)
		dom := x.specHeapByKey(env, dk, ArraySort(SInt, ArraySort(x.ti.SortOf(mt.Key()), SBool)))
		return TV{And(Not(Eq(m.T, IntLit(0))), Select(Select(dom, m.T), k.T)), tBool}
	case "string":
		a := argTV(0)
		if a.T.Sort == SSlice {
			h := x.specHeapByKey(env, x.ti.HeapKey(tByte), x.ti.HeapSort(tByte))
			ln := Sel("s-len", a.T)
			t := App("bytes2str", SStr, Select(h, Sel("s-ref", a.T)), Sel("s-off", a.T), ln)
			return TV{t, tString}
		}
		if a.T.Sort == SStr {
			return a
		}
		env.fail("string() of %s", a.Ty)
	case "srune", "srunelen":
		// the rune decoded at byte i of a string (as range-over-string decodes it), and its width
		a, i := argTV(0), argTV(1)
		if a.T.Sort != SStr {
			env.fail("%s needs a string", e.Fun)
		}
		x.declareFun("runeAt", "(declare-fun runeAt (Str Int) Int)")
		x.declareFun("runeLen", "(declare-fun runeLen (Str Int) Int)")
		if e.Fun == "srune" {
			return TV{App("runeAt", SInt, a.T, i.T), types.Typ[types.Int32]}
		}
		return TV{App("runeLen", SInt, a.T, i.T), tInt}
	case "runeAt", "runeLen":
		// the rune decoded at byte i of a byte slice (utf8.DecodeRune(s[i:])), and its width
		a, i := argTV(0), argTV(1)
		if a.T.Sort != SSlice {
			env.fail("%s needs a []byte", e.Fun)
		}
		h := x.specHeapByKey(env, x.ti.HeapKey(tByte), x.ti.HeapSort(tByte))
		if oh := x.oldHeapOf[a.T]; oh != nil {
			if hh, ok := oh[x.ti.HeapKey(tByte)]; ok {
				h = hh
			}
		}
		fn := "brune"
		ty := types.Type(types.Typ[types.Int32])
		if e.Fun == "runeLen" {
			fn = "brunelen"
			ty = tInt
		}
		x.declareFun("brune", "(declare-fun brune ((Array Int Int) Int Int) Int)")
		x.declareFun("brunelen", "(declare-fun brunelen ((Array Int Int) Int Int) Int)")
		return TV{App(fn, SInt, Select(h, Sel("s-ref", a.T)), Add(Sel("s-off", a.T), i.T), Sub(Sel("s-len", a.T), i.T)), ty}
	case "apply":
		// apply(f, a, b, …): the result of calling function value f (single result)
		f := argTV(0)
		sig, ok := f.Ty.Underlying().(*types.Signature)
		if !ok {
			env.fail("apply() needs a function value")
		}
		var ats []*Term
		for i := 1; i < len(e.Args); i++ {
			ats = append(ats, argTV(i).T)
		}
		rs, ok := x.dynApp(sig, f.T, ats)
		if !ok {
			env.fail("apply(): the signature %s is not scalar", sig)
		}
		return TV{rs[0], sig.Results().At(0).Type()}
	case "sprintf", "errorf":
		var ops []*Term
		for i := range e.Args {
			a := argTV(i)
			if i > 0 && a.T.Sort != SIface {
				env.fail("%s: operand %d must be boxed with iface(...)", e.Fun, i)
			}
			ops = append(ops, a.T)
		}
		t := x.formatApp(e.Fun, ops)
		if e.Fun == "errorf" {
			return TV{t, types.Universe.Lookup("error").Type()}
		}
		return TV{t, tString}
	case "mkstruct":
		// mkstruct(T, v1, v2, …): the struct value T{v1, v2, …}
		tn := specTypeName(e.Args[0])
		if tn == "" {
			env.fail("mkstruct needs a type name first")
		}
		id := &SIdent{tn}
		ty := env.resolveType(tn)
		stt, ok := ty.Underlying().(*types.Struct)
		if !ok || stt.NumFields() != len(e.Args)-1 {
			env.fail("mkstruct(%s, …): need one value per field", id.Name)
		}
		sort := x.ti.SortOf(ty)
		dt := datatypes[sort]
		var fs []*Term
		for i := 0; i < stt.NumFields(); i++ {
			a := argTV(i + 1)
			if a.T.Sort != dt.sorts[i] {
				if a.T.Op == "opq-nil" {
					a.T = x.ti.ZeroTerm(stt.Field(i).Type())
				} else if v, ok := a.T.IntVal(); ok && dt.sorts[i] == SF64 {
					f, _ := new(big.Float).SetInt(v).Float64()
					a.T = fpLit(f)
				} else {
					env.fail("mkstruct(%s): field %d has sort %s, want %s", id.Name, i, a.T.Sort, dt.sorts[i])
				}
			}
			fs = append(fs, a.T)
		}
		return TV{Ctor(dt.ctor, sort, fs...), ty}
	case "addr":
		// addr(v): the address of package-level variable v
		id, ok := e.Args[0].(*SIdent)
		if !ok {
			env.fail("addr() needs the name of a package-level variable")
		}
		pkg := env.pkg
		if pkg == nil && x.fn != nil && x.fn.Pkg != nil {
			pkg = x.fn.Pkg.Pkg
		}
		for _, p := range x.v.prog.AllPackages() {
			if p.Pkg == pkg {
				if g, ok := p.Members[id.Name].(*ssa.Global); ok {
					return TV{x.globalPtr(g), g.Type()}
				}
			}
		}
		env.fail("no package-level variable %s", id.Name)
	case "syncmap":
		// the abstract content of a *sync.Map, as a map[any]any addressed by the pointer's reference
		a := argTV(0)
		if a.T.Sort != SPtr {
			env.fail("syncmap needs a *sync.Map")
		}
		anyT := types.Universe.Lookup("any").Type()
		return TV{Sel("p-ref", a.T), types.NewMap(anyT, anyT)}
	case "iface":
		// iface(v): v boxed in an interface value
		a := argTV(0)
		if a.T.Sort == SIface {
			return a
		}
		return x.makeInterface(env.st, a, a.Ty, types.Universe.Lookup("any").Type())
	case "typeis", "as":
		// typeis(x, T): the dynamic type of interface value x is T;  as(x, T): the T it holds
		a := argTV(0)
		if a.T.Sort != SIface {
			env.fail("%s needs an interface value", e.Fun)
		}
		var tname string
		var typeName func(t SExpr) string
		typeName = func(t SExpr) string {
			switch t := t.(type) {
			case *SIdent:
				return t.Name
			case *SField:
				if id, ok := t.X.(*SIdent); ok {
					return id.Name + "." + t.Name
				}
			case *SUnary:
				if t.Op == "*" {
					if n := typeName(t.X); n != "" {
						return "*" + n
					}
				}
			}
			return ""
		}
		tname = typeName(e.Args[1])
		if tname == "" {
			env.fail("%s: second argument must be a type", e.Fun)
		}
		ty := env.resolveType(tname)
		x.declareFun("dyntype", "(declare-fun dyntype (Iface) Int)")
		if e.Fun == "typeis" {
			return TV{And(Not(Eq(a.T, Atom("iface-nil", SIface))), Eq(App("dyntype", SInt, a.T), IntLit(int64(x.v.typeID(ty))))), tBool}
		}
		fn := "unbox_" + x.ti.typeKey(ty)
		sort := x.ti.SortOf(ty)
		x.declareFun(fn, fmt.Sprintf("(declare-fun %s (Iface) %s)", fn, sort))
		return TV{App(fn, sort, a.T), ty}
	case "errseen":
		if env.st == nil || env.st.errSeen == nil {
			return TV{False, tBool}
		}
		return TV{env.st.errSeen, tBool}
	case "visited":
		if env.visited == nil {
			env.fail("visited() outside a map range loop")
		}
		return TV{Select(env.visited(), argTV(0).T), tBool}
	case "idx":
		if env.idx == nil {
			env.fail("idx() outside a range loop")
		}
		return TV{env.idx(), tInt}
	case "rlen":
		if env.rlen == nil {
			env.fail("rlen() outside a range loop")
		}
		return TV{env.rlen(), tInt}
	case "deref":
		a := argTV(0)
		pt, ok := a.Ty.Underlying().(*types.Pointer)
		if !ok {
			env.fail("deref of %s", a.Ty)
		}
		return TV{x.specHeapRead(env, pt.Elem(), Sel("p-ref", a.T), Sel("p-idx", a.T)), pt.Elem()}
	case "isNaN", "math.IsNaN":
		return TV{App("fp.isNaN", SBool, argTV(0).T), tBool}
	case "isInf":
		return TV{App("fp.isInfinite", SBool, argTV(0).T), tBool}
	case "bv32":
		// bv32(x): the 32-bit vector of an integer known to lie in [0,32) (shift counts, bit indices) or a literal
		a := argTV(0)
		if a.T.Sort == SBV32 {
			return a
		}
		if v, ok := a.T.IntVal(); ok {
			return TV{bvLit(v, 32), types.Typ[types.Uint32]}
		}
		return TV{bvOfSmallInt(a.T, 32, SBV32), types.Typ[types.Uint32]}
	case "posinf":
		return TV{Atom("(_ +oo 11 53)", SF64), tFloat}
	case "neginf":
		return TV{Atom("(_ -oo 11 53)", SF64), tFloat}
	case "fabs", "math.Abs":
		a := argTV(0)
		return TV{App("fp.abs", a.T.Sort, a.T), a.Ty}
	case "float64":
		a := argTV(0)
		if a.T.Sort == SF64 {
			return a
		}
		if v, ok := a.T.IntVal(); ok && v.IsInt64() {
			f, _ := new(big.Float).SetInt(v).Float64()
			return TV{fpLit(f), tFloat}
		}
		return TV{x.i2fTerm(a.T), tFloat}
	case "int":
		a := argTV(0)
		if a.T.Sort == SInt {
			return TV{a.T, tInt}
		}
		if a.T.Sort.IsBV() {
			return TV{App("bv2nat", SInt, a.T), tInt}
		}
		if a.T.Sort == SF64 {
			// the same uninterpreted truncation the executable conversion uses
			x.declareFun("f2i", "(declare-fun f2i ((_ FloatingPoint 11 53)) Int)")
			return TV{App("f2i", SInt, a.T), tInt}
		}
	case "bits": // bits(f): IEEE bit pattern identity helper: bitwise equality of floats
		a, b := argTV(0), argTV(1)
		return TV{Eq(a.T, b.T), tBool}
	case "iff":
		a, b := argTV(0), argTV(1)
		return TV{Eq(a.T, b.T), tBool}
	}
	if sf := x.v.cs.Funcs[e.Fun]; sf != nil {
		return x.callSpecFunc(env, sf, e)
	}
	if v, ok := x.v.libSpecCall(x, env, e); ok {
		return v
	}
	env.fail("unknown spec function %q", e.Fun)
	return nil
}

// callSpecFunc expands a pure spec function (macro) or applies a recursive one.
func (x *Exec) callSpecFunc(env *Env, sf *SpecFunc, e *SCall) Value {
	if len(e.Args) != len(sf.Params) {
		env.fail("%s expects %d arguments", sf.Name, len(sf.Params))
	}
	if sf.Rec {
		return x.callRecFunc(env, sf, e)
	}
	if sf.Ghost {
		// uninterpreted function of its arguments
		tenv := &Env{x: x, pkg: env.pkg}
		if p := x.v.typesPkg(sf.PkgPath); p != nil {
			tenv.pkg = p
		}
		rt := tenv.resolveType(sf.Result)
		var args []*Term
		var ps []string
		for i, p := range sf.Params {
			a := x.compileTV(env, e.Args[i])
			want := x.ti.SortOf(tenv.resolveType(p.Type))
			if a.T.Sort != want {
				env.fail("argument %d of %s has sort %s, want %s", i, sf.Name, a.T.Sort, want)
			}
			args = append(args, a.T)
			ps = append(ps, string(want))
		}
		name := "g_" + sf.Name
		x.declareFun(name, fmt.Sprintf("(declare-fun %s (%s) %s)", name, strings.Join(ps, " "), x.ti.SortOf(rt)))
		if len(args) == 0 {
			return TV{Atom(name, x.ti.SortOf(rt)), rt}
		}
		return TV{App(name, x.ti.SortOf(rt), args...), rt}
	}
	ch := env.child()
	ch.vars = nil
	ch.lookup = nil
	ch.idx = nil
	ch.rlen = nil
	if p := x.v.typesPkg(sf.PkgPath); p != nil {
		ch.pkg = p
	}
	for i, p := range sf.Params {
		a := x.compile(env, e.Args[i])
		tv, ok := a.(TV)
		if !ok {
			env.fail("argument %d of %s is not a value", i, sf.Name)
		}
		// retype literals to the declared parameter type where sorts agree
		if p.Type != "any" {
			pt := ch.resolveType(p.Type)
			if x.ti.SortOf(pt) == tv.T.Sort {
				tv.Ty = pt
			} else if tv.T.Op == "opq-nil" {
				tv = TV{x.ti.ZeroTerm(pt), pt}
			} else {
				env.fail("argument %d of %s has sort %s, want %s", i, sf.Name, tv.T.Sort, x.ti.SortOf(pt))
			}
		}
		ch.bound[p.Name] = tv
	}
	save := ch.clause
	v := x.compile(ch, sf.Body)
	ch.clause = save
	return v
}

// qualifiedGlobal resolves pkg.Name to a package-level variable or constant of an
// imported package — unless pkg names a variable in scope.
func (x *Exec) qualifiedGlobal(env *Env, pkgName, name string) (Value, bool) {
	if _, ok := env.bound[pkgName]; ok {
		return nil, false
	}
	if env.vars != nil {
		if _, ok := env.vars[pkgName]; ok {
			return nil, false
		}
	}
	if env.lookup != nil {
		if _, ok := env.lookup(pkgName); ok {
			return nil, false
		}
	}
	for _, p := range x.v.prog.AllPackages() {
		if p.Pkg.Name() != pkgName {
			continue
		}
		switch m := p.Members[name].(type) {
		case *ssa.Global:
			ptr := x.globalPtr(m)
			elem := m.Type().Underlying().(*types.Pointer).Elem()
			return TV{x.specHeapRead(env, elem, Sel("p-ref", ptr), IntLit(0)), elem}, true
		case *ssa.NamedConst:
			return x.constValue(m.Value), true
		}
	}
	return nil, false
}

// specTypeName renders a spec expression used as a type: T, pkg.T, *T, *pkg.T.
func specTypeName(t SExpr) string {
	switch t := t.(type) {
	case *SIdent:
		return t.Name
	case *SField:
		if id, ok := t.X.(*SIdent); ok {
			return id.Name + "." + t.Name
		}
	case *SUnary:
		if t.Op == "*" {
			if n := specTypeName(t.X); n != "" {
				return "*" + n
			}
		}
	}
	return ""
}

// resolveIdent looks a name up among bound variables, contract variables and locals.
func (env *Env) resolveIdent(name string) (Value, bool) {
	if b, ok := env.bound[name]; ok {
		return b, true
	}
	if env.vars != nil {
		if v, ok := env.vars[name]; ok {
			return v, true
		}
	}
	if env.lookup != nil {
		if v, ok := env.lookup(name); ok {
			return v, true
		}
	}
	return nil, false
}
