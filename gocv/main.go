package main

import (
	"flag"
	"fmt"
	"os"
	"sort"
	"strings"
	"time"
)

func main() {
	repo := flag.String("repo", "/repo", "repository root")
	lib := flag.String("lib", "/verif/lib", "library spec directory")
	fnFlag := flag.String("fn", "", "verify only functions whose key contains this string")
	pkgFlag := flag.String("pkgs", "./...", "comma-separated package patterns to load")
	timeout := flag.Int("timeout", 10, "per-obligation solver timeout (s)")
	dump := flag.String("dump", "", "write the script of the obligation with this label to stdout")
	verbose := flag.Bool("v", false, "verbose")
	prop := flag.String("prop", "", "property id: run the property check")
	tier := flag.String("tier", "quick", "quick or thorough")
	replay := flag.String("replay", "", "re-run the replay recorded in this file")
	flag.Parse()
	KeepScripts = *dump != ""
	if *replay != "" {
		os.Exit(rerunReplay(*replay))
	}
	if *prop != "" {
		os.Exit(runProperty(*repo, *lib, *prop, *tier))
	}
	start := time.Now()
	v, err := LoadVerifier(*repo, *lib, strings.Split(*pkgFlag, ","))
	if err != nil {
		fmt.Fprintln(os.Stderr, "load:", err)
		os.Exit(2)
	}
	fmt.Printf("loaded in %.1fs; %d contracts\n", time.Since(start).Seconds(), len(v.cs.Contracts))
	var keys []string
	for k := range v.cs.Contracts {
		if *fnFlag == "" || strings.Contains(k, *fnFlag) {
			keys = append(keys, k)
		}
	}
	sort.Strings(keys)
	bad := 0
	for _, k := range keys {
		c := v.cs.Contracts[k]
		if c.Trusted || v.funcs[k] == nil || v.funcs[k].Blocks == nil || c.Inline {
			if v.funcs[k] == nil {
				fmt.Printf("?? %s: no such function\n", k)
			}
			continue
		}
		res := v.VerifyFunc(k)
		if res.SpecError != "" {
			fmt.Printf("SPEC ERROR %s: %s\n", k, res.SpecError)
			bad++
			continue
		}
		if res.OutOfReach != "" {
			fmt.Printf("OUT OF REACH %s: %s\n", k, res.OutOfReach)
			bad++
			continue
		}
		stats := &SolveStats{bySolver: map[string]float64{}, nBySolver: map[string]int{}}
		v.Solve(res, *timeout, stats)
		nd := 0
		for _, o := range res.Obligations {
			if o.Status == "discharged" {
				nd++
			}
			if *dump != "" && strings.Contains(o.Label, *dump) {
				fmt.Println(o.Script)
			}
		}
		if *dump != "" {
			continue
		}
		fmt.Printf("%s: %d paths (%d/%d return paths feasible), %d/%d obligations discharged\n", k, res.Paths, res.FeasibleReturns, res.ReturnPaths, nd, len(res.Obligations))
		for _, o := range res.Obligations {
			if o.Status == "discharged" && o.Time > 2 && !*verbose {
				fmt.Printf("   slow       %s  [%s %.2fs]\n", o.Label, o.Solver, o.Time)
			}
			if o.Status != "discharged" || *verbose {
				fmt.Printf("   %-10s %s  [%s %.2fs] %s path=%v\n", o.Status, o.Label, o.Solver, o.Time, o.Pos, o.Path)
				if o.Status != "discharged" {
					bad++
				}
			}
		}
		for _, a := range res.Assumptions {
			if *verbose {
				fmt.Println("   assume:", a)
			}
		}
	}
	if bad > 0 {
		os.Exit(1)
	}
}

func init() {
	if len(os.Args) > 2 && os.Args[1] == "-list" {
		v, err := LoadVerifier("/repo", "/verif/lib", []string{os.Args[2]})
		if err != nil {
			fmt.Println(err)
			os.Exit(2)
		}
		var ks []string
		for k := range v.funcs {
			if strings.Contains(k, os.Args[3]) {
				ks = append(ks, k)
			}
		}
		sort.Strings(ks)
		for _, k := range ks {
			fmt.Println(k)
		}
		os.Exit(0)
	}
	// -loops <pkg> <function key substring>: loop ordinals with their source lines
	if len(os.Args) > 3 && os.Args[1] == "-loops" {
		v, err := LoadVerifier("/repo", "/verif/lib", []string{os.Args[2]})
		if err != nil {
			fmt.Println(err)
			os.Exit(2)
		}
		for k, fn := range v.funcs {
			if !strings.Contains(k, os.Args[3]) {
				continue
			}
			fmt.Println(k)
			var lis []*loopInfo
			for _, li := range v.loopInfo(fn) {
				lis = append(lis, li)
			}
			sort.Slice(lis, func(i, j int) bool { return lis[i].ordinal < lis[j].ordinal })
			for _, li := range lis {
				fmt.Printf("  loop %d: %s\n", li.ordinal, v.fset.Position(li.pos))
			}
		}
		os.Exit(0)
	}
}
