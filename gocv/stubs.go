package main

import (
	"golang.org/x/tools/go/ssa"
)

// BlockSpec: a block contract (execution starts and ends inside a function).
type BlockSpec struct {
	endEdge func(from, to *ssa.BasicBlock) bool
}

func (b *BlockSpec) isEnd(from, to *ssa.BasicBlock) bool { return b.endEdge != nil && b.endEdge(from, to) }

func (v *Verifier) libSpecCall(x *Exec, env *Env, e *SCall) (Value, bool) { return nil, false }

func (x *Exec) callRecFunc(env *Env, sf *SpecFunc, e *SCall) Value {
	env.fail("recursive spec functions are not implemented yet")
	return nil
}

func (v *Verifier) recFuncDecls(x *Exec) []string { return nil }
