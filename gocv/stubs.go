package main

import (
	"fmt"
	"go/types"
	"strings"

	"golang.org/x/tools/go/ssa"
)

// BlockSpec: a block contract (execution starts and ends inside a function).
type BlockSpec struct {
	endEdge func(from, to *ssa.BasicBlock) bool
}

func (b *BlockSpec) isEnd(from, to *ssa.BasicBlock) bool { return b.endEdge != nil && b.endEdge(from, to) }

// libSpecCall: a spec expression may call a library function whose assumed
// contract is marked "opt functional" (its result is a function of its scalar
// arguments); the call denotes that function.
func (v *Verifier) libSpecCall(x *Exec, env *Env, e *SCall) (Value, bool) {
	fun := e.Fun
	sel := -1
	if i := strings.LastIndex(fun, "_"); i > 0 && i == len(fun)-2 && fun[i+1] >= '0' && fun[i+1] <= '9' {
		// F_0(args), F_1(args): the i-th result of a functional routine with several results
		if c0 := v.cs.Contracts[v.resolveLibNameIn(x, env, fun[:i])]; c0 != nil && c0.Opts["functional"] != "" {
			sel = int(fun[i+1] - '0')
			fun = fun[:i]
		}
	}
	key := v.resolveLibNameIn(x, env, fun)
	c := v.cs.Contracts[key]
	if c == nil || c.Opts["functional"] == "" {
		return nil, false
	}
	fn := v.funcs[key]
	if fn == nil {
		env.fail("library function %s is not loaded", key)
	}
	var args []*Term
	for i := range e.Args {
		a := x.compileTV(env, e.Args[i])
		want := x.ti.SortOf(allParamTypes(fn.Signature)[i])
		if a.T.Sort != want {
			env.fail("argument %d of %s has sort %s, want %s", i, e.Fun, a.T.Sort, want)
		}
		args = append(args, a.T)
	}
	res := x.functionalApp(key, c, fn, args)
	if tup, ok := res.(Tuple); ok {
		if sel < 0 || sel >= len(tup) {
			env.fail("%s has %d results: write %s_0(...), %s_1(...)", e.Fun, len(tup), e.Fun, e.Fun)
		}
		return tup[sel], true
	}
	return res, true
}

// resolveLibNameIn also tries the unqualified name in the current package.
func (v *Verifier) resolveLibNameIn(x *Exec, env *Env, name string) string {
	if !strings.Contains(name, ".") {
		if env.pkg != nil {
			if _, ok := v.cs.Contracts[env.pkg.Path()+"."+name]; ok {
				return env.pkg.Path() + "." + name
			}
		}
		if x.fn != nil && x.fn.Pkg != nil {
			if k := x.fn.Pkg.Pkg.Path() + "." + name; v.cs.Contracts[k] != nil {
				return k
			}
		}
		for k := range v.cs.Contracts {
			if strings.HasSuffix(k, "."+name) && strings.HasPrefix(k, "golang.org/x/perf/") && strings.Count(k[strings.LastIndex(k, "/")+1:], ".") == 1 {
				return k
			}
		}
	}
	// pkg.Name: prefer the package that the current package imports under that name
	if i := strings.Index(name, "."); i > 0 {
		pn, fnm := name[:i], name[i+1:]
		var pkgs []*types.Package
		if env.pkg != nil {
			pkgs = append(pkgs, env.pkg)
		}
		if x.fn != nil && x.fn.Pkg != nil {
			pkgs = append(pkgs, x.fn.Pkg.Pkg)
		}
		for _, p := range pkgs {
			for _, imp := range p.Imports() {
				if imp.Name() == pn {
					if _, ok := v.cs.Contracts[imp.Path()+"."+fnm]; ok {
						return imp.Path() + "." + fnm
					}
				}
			}
		}
	}
	return v.resolveLibName(name)
}

func (v *Verifier) resolveLibName(name string) string {
	if _, ok := v.cs.Contracts[name]; ok {
		return name
	}
	i := strings.Index(name, ".")
	if i < 0 {
		return name
	}
	pn, fnm := name[:i], name[i+1:]
	for k := range v.cs.Contracts {
		j := strings.LastIndex(k, ".")
		if j < 0 || k[j+1:] != fnm {
			continue
		}
		pkg := k[:j]
		if pkg == pn || strings.HasSuffix(pkg, "/"+pn) {
			return k
		}
		// method of a type of that package: pkg.Recv.name
		if jj := strings.LastIndex(pkg, "."); jj >= 0 {
			if p2 := pkg[:jj]; p2 == pn || strings.HasSuffix(p2, "/"+pn) {
				return k
			}
		}
	}
	return name
}

// functionalApp applies the uninterpreted function standing for a functional
// library routine and (once) asserts its assumed contract as universally
// quantified axioms.
func (x *Exec) functionalApp(key string, c *Contract, fn *ssa.Function, args []*Term) Value {
	sig := fn.Signature
	if sig.Results().Len() != 1 {
		return x.functionalAppN(key, c, fn, args)
	}
	rt := sig.Results().At(0).Type()
	fname := "f_" + sanitize(key)
	if !x.declared[fname] {
		var ps []string
		ptypes := allParamTypes(sig)
		for _, pt := range ptypes {
			ps = append(ps, string(x.ti.SortOf(pt)))
		}
		x.declareFun(fname, fmt.Sprintf("(declare-fun %s (%s) %s)", fname, strings.Join(ps, " "), x.ti.SortOf(rt)))
		// axioms: forall params. typing(params) => ensures[result := f(params)]
		var bound []*Term
		var guards []*Term
		vars := map[string]Value{}
		for i, pt := range ptypes {
			x.counter++
			b := Atom(fmt.Sprintf("q!%d", x.counter), x.ti.SortOf(pt))
			bound = append(bound, b)
			guards = append(guards, x.ti.WF(b, pt, nil)...)
			name := fmt.Sprintf("_p%d", i)
			if i < len(c.Params) {
				name = c.Params[i]
			}
			vars[name] = TV{b, pt}
		}
		app := App(fname, x.ti.SortOf(rt), bound...)
		if len(bound) == 0 {
			app = Atom(fname, x.ti.SortOf(rt))
		}
		env := &Env{x: x, vars: vars, heap: map[string]*Term{}, st: &State{heap: map[string]*Term{}}, alloc: Atom("alloc0", SInt)}
		if fn.Pkg != nil {
			env.pkg = fn.Pkg.Pkg
		}
		if len(c.Results) > 0 && c.Results[0] != "" {
			vars[c.Results[0]] = TV{app, rt}
		}
		vars["result"] = TV{app, rt}
		body := []*Term{And(x.ti.WF(app, rt, nil)...)}
		for _, e := range c.Ensures {
			env.st = &State{heap: map[string]*Term{}}
			t := x.compileBool(env, e.Expr, e)
			if len(env.st.heap) > 0 {
				continue // talks about memory: not part of the functional view
			}
			body = append(body, t)
		}
		ax := Implies(And(guards...), And(body...))
		if len(bound) > 0 {
			x.axioms = append(x.axioms, &Term{Op: "forall", Sort: SBool, Bound: bound, Args: []*Term{ax}, Pats: []*Term{app}})
		} else {
			x.axioms = append(x.axioms, ax)
		}
		x.assumeNote("trusted contract: " + key)
	}
	if len(args) == 0 {
		return TV{Atom(fname, x.ti.SortOf(rt)), rt}
	}
	return TV{App(fname, x.ti.SortOf(rt), args...), rt}
}

// Recursive spec functions become define-fun-rec.  Every heap the body reads
// is an extra parameter (named like the heap, shadowing the global constant), so
// an application denotes the function's value in the heap state it is applied in.
type recFuncInfo struct {
	decl     string
	sort     Sort
	rtype    types.Type
	ptypes   []types.Type
	heapKeys []heapKeySort
}

func (x *Exec) recFunc(env *Env, sf *SpecFunc) *recFuncInfo {
	if x.recFuncs == nil {
		x.recFuncs = map[string]*recFuncInfo{}
	}
	if ri, ok := x.recFuncs[sf.Name]; ok {
		return ri
	}
	ri := &recFuncInfo{}
	x.recFuncs[sf.Name] = ri
	tenv := &Env{x: x, pkg: env.pkg}
	if p := x.v.typesPkg(sf.PkgPath); p != nil {
		tenv.pkg = p
	}
	ri.rtype = tenv.resolveType(sf.Result)
	ri.sort = x.ti.SortOf(ri.rtype)
	var params []string
	bound := map[string]TV{}
	for _, p := range sf.Params {
		pt := tenv.resolveType(p.Type)
		ri.ptypes = append(ri.ptypes, pt)
		a := Atom("a_"+p.Name, x.ti.SortOf(pt))
		params = append(params, fmt.Sprintf("(%s %s)", a.Op, a.Sort))
		bound[p.Name] = TV{a, pt}
	}
	var body TV
	for pass := 0; pass < 4; pass++ {
		bst := &State{heap: map[string]*Term{}}
		for _, k := range ri.heapKeys {
			bst.heap[k.key] = Atom(k.key, k.sort)
		}
		benv := &Env{x: x, heap: bst.heap, st: bst, bound: map[string]TV{}, pkg: tenv.pkg, alloc: Atom("alloc0", SInt)}
		for k, v := range bound {
			benv.bound[k] = v
		}
		body = x.compileTV(benv, sf.Body)
		var keys []heapKeySort
		for _, k := range sortedHeapKeys(bst.heap) {
			keys = append(keys, heapKeySort{k, bst.heap[k].Sort})
		}
		same := len(keys) == len(ri.heapKeys)
		for i := range keys {
			if !same || keys[i] != ri.heapKeys[i] {
				same = false
				break
			}
		}
		ri.heapKeys = keys
		if same {
			break
		}
	}
	if body.T.Sort != ri.sort {
		env.fail("recursive spec function %s: body has sort %s, declared %s", sf.Name, body.T.Sort, ri.sort)
	}
	for _, k := range ri.heapKeys {
		params = append(params, fmt.Sprintf("(%s %s)", k.key, k.sort))
	}
	ri.decl = fmt.Sprintf("(define-fun-rec %s (%s) %s %s)", sf.Name, strings.Join(params, " "), ri.sort, body.T)
	x.recOrder = append(x.recOrder, sf.Name)
	return ri
}

func (x *Exec) callRecFunc(env *Env, sf *SpecFunc, e *SCall) Value {
	ri := x.recFunc(env, sf)
	var args []*Term
	for i := range sf.Params {
		a := x.compileTV(env, e.Args[i])
		want := x.ti.SortOf(ri.ptypes[i])
		if a.T.Sort != want {
			if a.T.Op == "opq-nil" {
				a.T = x.ti.ZeroTerm(ri.ptypes[i])
			} else {
				env.fail("argument %d of %s has sort %s, want %s", i, sf.Name, a.T.Sort, want)
			}
		}
		args = append(args, a.T)
	}
	for _, k := range ri.heapKeys {
		h, ok := env.heap[k.key]
		if !ok {
			h = x.heapByKey(env.st, k.key, k.sort)
			if env.inOld {
				if oh, ok := env.old.heap[k.key]; ok {
					h = oh
				}
			}
		}
		args = append(args, h)
	}
	return TV{App(sf.Name, ri.sort, args...), ri.rtype}
}

func (v *Verifier) recFuncDecls(x *Exec) []string {
	var out []string
	for _, n := range x.recOrder {
		if ri := x.recFuncs[n]; ri != nil && ri.decl != "" {
			out = append(out, ri.decl)
		}
	}
	return out
}

// functionalAppN: a functional routine with several results is one
// uninterpreted function per result.
func (x *Exec) functionalAppN(key string, c *Contract, fn *ssa.Function, args []*Term) Value {
	sig := fn.Signature
	n := sig.Results().Len()
	base := "f_" + sanitize(key)
	mk := func(i int, as []*Term) *Term {
		rt := sig.Results().At(i).Type()
		return App(fmt.Sprintf("%s_%d", base, i), x.ti.SortOf(rt), as...)
	}
	if !x.declared[base+"_0"] {
		var ps []string
		ptypes := allParamTypes(sig)
		for _, pt := range ptypes {
			ps = append(ps, string(x.ti.SortOf(pt)))
		}
		for i := 0; i < n; i++ {
			x.declareFun(fmt.Sprintf("%s_%d", base, i), fmt.Sprintf("(declare-fun %s_%d (%s) %s)", base, i, strings.Join(ps, " "), x.ti.SortOf(sig.Results().At(i).Type())))
		}
		var bound, guards []*Term
		vars := map[string]Value{}
		for i, pt := range ptypes {
			x.counter++
			b := Atom(fmt.Sprintf("q!%d", x.counter), x.ti.SortOf(pt))
			bound = append(bound, b)
			guards = append(guards, x.ti.WF(b, pt, nil)...)
			name := fmt.Sprintf("_p%d", i)
			if i < len(c.Params) {
				name = c.Params[i]
			}
			vars[name] = TV{b, pt}
		}
		env := &Env{x: x, vars: vars, heap: map[string]*Term{}, st: &State{heap: map[string]*Term{}}, alloc: Atom("alloc0", SInt)}
		if fn.Pkg != nil {
			env.pkg = fn.Pkg.Pkg
		}
		var body []*Term
		var pats []*Term
		for i := 0; i < n; i++ {
			rt := sig.Results().At(i).Type()
			app := mk(i, bound)
			name := ""
			if i < len(c.Results) {
				name = c.Results[i]
			}
			if name == "" {
				name = sig.Results().At(i).Name()
			}
			if name != "" {
				vars[name] = TV{app, rt}
			}
			vars[fmt.Sprintf("result%d", i)] = TV{app, rt}
			body = append(body, x.ti.WF(app, rt, nil)...)
			if i == 0 {
				pats = append(pats, app)
			}
		}
		for _, e := range c.Ensures {
			env.st = &State{heap: map[string]*Term{}}
			t := x.compileBool(env, e.Expr, e)
			if len(env.st.heap) > 0 {
				continue // talks about memory: not part of the functional view
			}
			body = append(body, t)
		}
		ax := Implies(And(guards...), And(body...))
		if !ax.IsTrue() {
			x.axioms = append(x.axioms, &Term{Op: "forall", Sort: SBool, Bound: bound, Args: []*Term{ax}, Pats: pats})
		}
		x.assumeNote("functional contract (result is a function of the arguments): " + key)
		if len(c.Requires) > 0 {
			x.assumeNote("the requires clauses of functional contract " + key + " are global invariants (established at initialisation, preserved by their only writers) and are not re-checked at call sites")
		}
	}
	var out Tuple
	for i := 0; i < n; i++ {
		out = append(out, TV{mk(i, args), sig.Results().At(i).Type()})
	}
	return out
}

// allParamTypes: receiver (if any) followed by the parameters.
func allParamTypes(sig *types.Signature) []types.Type {
	var out []types.Type
	if r := sig.Recv(); r != nil {
		out = append(out, r.Type())
	}
	for i := 0; i < sig.Params().Len(); i++ {
		out = append(out, sig.Params().At(i).Type())
	}
	return out
}
