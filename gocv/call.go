package main

import (
	"fmt"
	"go/token"
	"go/types"
	"strings"

	"golang.org/x/tools/go/ssa"
)

func (x *Exec) doCall(st *State, in *ssa.Call) []Outcome {
	com := in.Common()
	if com.IsInvoke() {
		if outs, ok := x.invokeCall(st, in); ok {
			return outs
		}
		return x.dynamicCall(st, in, fmt.Sprintf("interface method %s.%s", com.Value.Type(), com.Method.Name()))
	}
	var callee Value
	if self := x.selfRecursiveCallee(st, com.Value); self != nil {
		callee = *self
	} else {
		callee = x.val(st, com.Value)
	}
	var args []Value
	for _, a := range com.Args {
		args = append(args, x.val(st, a))
	}
	switch c := callee.(type) {
	case BuiltinV:
		return x.builtin(st, in, c.Name, args)
	case FuncV:
		if strings.HasPrefix(c.Fn.Name(), "ssa:") {
			return []Outcome{{st, []Value{TV{Atom("opq-nil", SOpq), in.Type()}}}}
		}
		return x.staticCall(st, in, c, args)
	}
	return x.dynamicCall(st, in, "function value "+com.Value.Name())
}

// selfRecursiveCallee resolves the idiom
//
//	var walk func(...); walk = func(...) { ... walk(...) ... }
//
// inside the closure: a call through a load of the captured variable is a call
// of the closure itself when the enclosing function stores exactly one value
// into that variable — this very closure — and no closure writes to it.
func (x *Exec) selfRecursiveCallee(st *State, v ssa.Value) *FuncV {
	ld, ok := v.(*ssa.UnOp)
	if !ok || ld.Op != token.MUL {
		return nil
	}
	if al, ok := ld.X.(*ssa.Alloc); ok {
		return x.closureVarInParent(st, al)
	}
	fvar, ok := ld.X.(*ssa.FreeVar)
	if !ok {
		return nil
	}
	fr := st.top()
	fn := fr.fn
	parent := fn.Parent()
	if parent == nil {
		return nil
	}
	idx := -1
	for i, f := range fn.FreeVars {
		if f == fvar {
			idx = i
		}
	}
	if idx < 0 {
		return nil
	}
	// the variable in the parent, and the closure creation that binds it
	var cell ssa.Value
	for _, b := range parent.Blocks {
		for _, in := range b.Instrs {
			if mc, ok := in.(*ssa.MakeClosure); ok && mc.Fn == fn && idx < len(mc.Bindings) {
				if cell != nil && cell != mc.Bindings[idx] {
					return nil
				}
				cell = mc.Bindings[idx]
			}
		}
	}
	al, ok := cell.(*ssa.Alloc)
	if !ok {
		return nil
	}
	stores := 0
	for _, ref := range *al.Referrers() {
		switch r := ref.(type) {
		case *ssa.Store:
			if r.Addr != al {
				return nil // the address itself escapes into memory
			}
			mc, ok := r.Val.(*ssa.MakeClosure)
			if !ok || mc.Fn != fn {
				return nil
			}
			stores++
		case *ssa.MakeClosure:
			// captured: the capturing closure must only read it
			cf := r.Fn.(*ssa.Function)
			for i, bnd := range r.Bindings {
				if bnd != al {
					continue
				}
				for _, u := range *cf.FreeVars[i].Referrers() {
					if lu, ok := u.(*ssa.UnOp); !ok || lu.Op != token.MUL {
						return nil
					}
				}
			}
		case *ssa.UnOp, *ssa.DebugRef:
		default:
			return nil
		}
	}
	if stores != 1 {
		return nil
	}
	var binds []Value
	for _, f := range fn.FreeVars {
		binds = append(binds, fr.regs[f])
	}
	return &FuncV{Fn: fn, Bindings: binds}
}

// closureVarInParent: in the function that declares  var f func(...); f = func...
// a call f(...) is a call of that closure when it is the only value ever stored.
func (x *Exec) closureVarInParent(st *State, al *ssa.Alloc) *FuncV {
	var mc *ssa.MakeClosure
	for _, ref := range *al.Referrers() {
		switch r := ref.(type) {
		case *ssa.Store:
			if r.Addr != al {
				return nil
			}
			m, ok := r.Val.(*ssa.MakeClosure)
			if !ok || mc != nil {
				return nil
			}
			mc = m
		case *ssa.MakeClosure:
			cf := r.Fn.(*ssa.Function)
			for i, bnd := range r.Bindings {
				if bnd != al {
					continue
				}
				for _, u := range *cf.FreeVars[i].Referrers() {
					if lu, ok := u.(*ssa.UnOp); !ok || lu.Op != token.MUL {
						return nil
					}
				}
			}
		case *ssa.UnOp, *ssa.DebugRef:
		default:
			return nil
		}
	}
	if mc == nil {
		return nil
	}
	fr := st.top()
	var binds []Value
	for _, b := range mc.Bindings {
		v, ok := fr.regs[b]
		if !ok {
			return nil
		}
		binds = append(binds, v)
	}
	return &FuncV{Fn: mc.Fn.(*ssa.Function), Bindings: binds}
}

// dynamicCall: calls through function values or interfaces.  Unless a
// call-site contract exists, the result is unconstrained and the callee is
// assumed not to write caller-visible memory (recorded).
// dynApp: a call through a function value whose parameters and results are
// all scalars is an uninterpreted function of the function value and the
// arguments (function values are assumed pure; listed).
func (x *Exec) dynApp(sig *types.Signature, fv *Term, args []*Term) ([]*Term, bool) {
	scalar := func(s Sort) bool { return s == SInt || s == SStr || s == SF64 || s == SBool || s.IsBV() }
	name := "dyn_" + sanitize(types.TypeString(sig, nil))
	var ps []string
	ps = append(ps, string(fv.Sort))
	for i := 0; i < sig.Params().Len(); i++ {
		s := x.ti.SortOf(sig.Params().At(i).Type())
		if !scalar(s) || i >= len(args) || args[i].Sort != s {
			return nil, false
		}
		ps = append(ps, string(s))
	}
	if sig.Results().Len() == 0 || sig.Variadic() {
		return nil, false
	}
	var out []*Term
	for i := 0; i < sig.Results().Len(); i++ {
		rs := x.ti.SortOf(sig.Results().At(i).Type())
		if !scalar(rs) {
			return nil, false
		}
		fn := fmt.Sprintf("%s_%d", name, i)
		x.declareFun(fn, fmt.Sprintf("(declare-fun %s (%s) %s)", fn, strings.Join(ps, " "), rs))
		out = append(out, App(fn, rs, append([]*Term{fv}, args...)...))
	}
	return out, true
}

// invokeApp: a call of an interface method is an uninterpreted function of the
// receiver value and the arguments, one function per result (assumption:
// interface methods are functions of receiver and arguments and do not write
// caller-visible memory; listed).
func (x *Exec) invokeApp(recvT types.Type, m *types.Func, recv *Term, args []*Term) ([]*Term, []types.Type, bool) {
	sig := m.Type().(*types.Signature)
	if sig.Variadic() || sig.Results().Len() == 0 {
		return nil, nil, false
	}
	name := "inv_" + sanitize(types.TypeString(recvT, nil)) + "_" + m.Name()
	ps := []string{string(recv.Sort)}
	for i := 0; i < sig.Params().Len(); i++ {
		s := x.ti.SortOf(sig.Params().At(i).Type())
		if i >= len(args) || args[i].Sort != s {
			return nil, nil, false
		}
		ps = append(ps, string(s))
	}
	var out []*Term
	var tys []types.Type
	for i := 0; i < sig.Results().Len(); i++ {
		rt := sig.Results().At(i).Type()
		rs := x.ti.SortOf(rt)
		fn := fmt.Sprintf("%s_%d", name, i)
		x.declareFun(fn, fmt.Sprintf("(declare-fun %s (%s) %s)", fn, strings.Join(ps, " "), rs))
		out = append(out, App(fn, rs, append([]*Term{recv}, args...)...))
		tys = append(tys, rt)
	}
	return out, tys, true
}

func (x *Exec) invokeCall(st *State, in *ssa.Call) ([]Outcome, bool) {
	com := in.Common()
	rv, ok := x.val(st, com.Value).(TV)
	if !ok {
		return nil, false
	}
	var ats []*Term
	for _, a := range com.Args {
		tv, ok := x.val(st, a).(TV)
		if !ok {
			return nil, false
		}
		ats = append(ats, tv.T)
	}
	rs, tys, ok := x.invokeApp(com.Value.Type(), com.Method, rv.T, ats)
	if !ok {
		return nil, false
	}
	x.assumeNote("calls of interface methods are functions of the receiver value and the arguments and do not modify memory visible to the caller")
	var vals []Value
	for i, r := range rs {
		st.assume(x.ti.WF(r, tys[i], st.alloc)...)
		vals = append(vals, TV{r, tys[i]})
	}
	x.noteErrs(st, com.Signature(), vals)
	return []Outcome{{st, vals}}, true
}

func (x *Exec) dynamicCall(st *State, in *ssa.Call, what string) []Outcome {
	com := in.Common()
	// a call through a value of a named function type that has a type contract
	if !com.IsInvoke() {
		if n, ok := types.Unalias(com.Value.Type()).(*types.Named); ok && n.Obj().Pkg() != nil {
			if c := x.v.cs.FuncTypes[n.Obj().Pkg().Path()+"."+n.Obj().Name()]; c != nil {
				if fvv, ok := x.val(st, com.Value).(TV); ok {
					return x.funcTypeCall(st, in, n, c, fvv)
				}
			}
		}
	}
	if !com.IsInvoke() {
		if fvv, ok := x.val(st, com.Value).(TV); ok && fvv.T.Sort == SOpq {
			var ats []*Term
			okArgs := true
			for _, a := range com.Args {
				tv, ok := x.val(st, a).(TV)
				if !ok {
					okArgs = false
					break
				}
				ats = append(ats, tv.T)
			}
			if okArgs {
				if rs, ok := x.dynApp(com.Signature(), fvv.T, ats); ok {
					x.assumeNote("calls through function values with scalar parameters and results are pure functions of the function value and the arguments")
					var vals []Value
					for i, r := range rs {
						rt := com.Signature().Results().At(i).Type()
						st.assume(x.ti.WF(r, rt, st.alloc)...)
						vals = append(vals, TV{r, rt})
					}
					return []Outcome{{st, vals}}
				}
			}
		}
	}
	x.assumeNote("dynamic call (" + what + ") in " + st.top().fn.Name() + ": result unconstrained, assumed not to modify memory visible to the caller")
	rs := x.freshResults(st, in.Common().Signature().Results(), "dyn")
	x.noteErrs(st, in.Common().Signature(), rs)
	return []Outcome{{st, rs}}
}

func (x *Exec) freshResults(st *State, res *types.Tuple, prefix string) []Value {
	var out []Value
	for i := 0; i < res.Len(); i++ {
		out = append(out, x.freshValue(st, fmt.Sprintf("%s_r%d", prefix, i), res.At(i).Type()))
	}
	return out
}

func (x *Exec) staticCall(st *State, in *ssa.Call, fv FuncV, args []Value) []Outcome {
	fn := fv.Fn
	key := funcKey(fn)
	if outs, ok := x.formatCall(st, in, key, args); ok {
		return outs
	}
	if key == "sort.Slice" || key == "sort.SliceStable" {
		x.sortSliceEffect(st, in, args)
	}
	c := x.v.cs.Contracts[key]
	if c != nil && !c.Inline {
		x.v.noteUse(x.key, key)
		var backs []func(st *State)
		args = append([]Value(nil), args...)
		for i, a := range args {
			if tv, back, ok := x.materialise(st, a); ok {
				args[i] = tv
				backs = append(backs, back)
			}
		}
		x.callBindings = fv.Bindings
		outs := x.contractCall(st, in, fn, c, args, key)
		x.callBindings = nil
		for _, o := range outs {
			for _, b := range backs {
				b(o.st)
			}
		}
		return outs
	}
	if fn.Blocks == nil {
		// external without body and without a spec
		x.assumeNote("external function " + key + " has no spec: result unconstrained, assumed pure")
		return []Outcome{{st, x.freshResults(st, fn.Signature.Results(), sanitize(fn.Name()))}}
	}
	inlineOK := c != nil && c.Inline
	if !inlineOK && c == nil && x.v.autoInline(fn) {
		inlineOK = true
	}
	if inlineOK {
		return x.inlineCall(st, fn, fv.Bindings, args, c)
	}
	// uncontracted callee in the repository: havoc everything it may write
	x.assumeNote("callee " + key + " has no contract: result unconstrained, everything it may write is havocked")
	ws := x.v.writeSet(fn)
	x.havocHeaps(st, ws, nil, true)
	return []Outcome{{st, x.freshResults(st, fn.Signature.Results(), sanitize(fn.Name()))}}
}

func (x *Exec) inlineCall(st *State, fn *ssa.Function, bindings []Value, args []Value, c *Contract) []Outcome {
	if len(st.frames) > 12 {
		unsup("inlining depth exceeded at %s", fn.Name())
	}
	fr := &Frame{fn: fn, regs: map[ssa.Value]Value{}, allocCell: map[*ssa.Alloc]*Cell{}, variants: map[*ssa.BasicBlock]*Term{}, entered: map[*ssa.BasicBlock]bool{}, contract: c, depth: len(st.frames)}
	for i, p := range fn.Params {
		fr.regs[p] = args[i]
	}
	for i, fvar := range fn.FreeVars {
		fr.regs[fvar] = bindings[i]
	}
	st.frames = append(st.frames, fr)
	outs := x.run(st, fn.Blocks[0], 0)
	for _, o := range outs {
		o.st.frames = o.st.frames[:len(o.st.frames)-1]
	}
	return outs
}

type modObj struct {
	key   string
	ref   *Term
	bound []*Term // non-nil: a family of objects, one per binding satisfying guard
	guard *Term
	all   bool // every object of this heap may be modified
}

// excludes: reference r is not (one of) the object(s) named.
func (m modObj) excludes(r *Term) *Term {
	if m.all {
		return False
	}
	if m.bound == nil {
		return Not(Eq(r, m.ref))
	}
	return MkQuant("forall", m.bound, Implies(m.guard, Not(Eq(r, m.ref))))
}

// havocHeaps replaces the heaps named in ws by fresh ones.  With frame=true
// every object that existed before (ref <= alloc before) and is not listed in
// mods keeps its contents.
func (x *Exec) havocHeaps(st *State, ws *writeSet, mods []modObj, frame bool) {
	before := st.alloc
	if ws.allocates {
		st.alloc = x.fresh("alloc", SInt)
		st.assume(Le(before, st.alloc))
	}
	for _, k := range ws.sorted() {
		old := x.heapByKey(st, k.key, k.sort)
		nh := x.fresh(k.key, k.sort)
		st.heap[k.key] = nh
		if et, ok := x.heapElem[k.key]; ok {
			st.assume(x.heapRefsBounded(nh, et, st.alloc)...)
		}
		if mt, ok := x.mapValType[k.key]; ok {
			st.assume(x.mapRefsBounded(nh, mt, st.alloc)...)
		}
		if !frame {
			continue
		}
		r := Atom("r!q", SInt)
		cond := []*Term{Lt(IntLit(0), r), Le(r, before)}
		for _, m := range mods {
			if m.key == k.key {
				cond = append(cond, m.excludes(r))
			}
		}
		body := Implies(And(cond...), Eq(Select(nh, r), Select(old, r)))
		st.assume(&Term{Op: "forall", Sort: SBool, Bound: []*Term{r}, Args: []*Term{body}, Pats: []*Term{Select(nh, r)}})
	}
}

// modObjects evaluates a modifies clause to the objects it names.
func (x *Exec) modObjects(env *Env, c *Contract) []modObj {
	var out []modObj
	for _, cl := range c.Modifies {
		for _, e := range cl.Exprs {
			env.clause = cl
			out = append(out, x.modObjOf(env, e)...)
		}
	}
	return out
}

// modObjOf: one location expression of a modifies clause (or of unchanged()).
func (x *Exec) modObjOf(env *Env, e SExpr) []modObj {
	var out []modObj
	var bound []*Term
	var guard *Term
	cenv := env
	if q, ok := e.(*SQuant); ok && q.All {
		// forall i int :: guard ==> object(i)
		imp, ok := q.Body.(*SBinary)
		if !ok || imp.Op != "==>" {
			env.fail("a quantified location must have the form  forall i T :: guard ==> object")
		}
		cenv = env.child()
		for _, v := range q.Vars {
			ty := cenv.resolveType(v.Type)
			x.counter++
			bt := Atom(fmt.Sprintf("%s!m%d", v.Name, x.counter), x.ti.SortOf(ty))
			bound = append(bound, bt)
			cenv.bound[v.Name] = TV{bt, ty}
		}
		guard = x.compileTV(cenv, imp.X).T
		e = imp.Y
	}
	if hc, ok := e.(*SCall); ok && hc.Fun == "heap" && len(hc.Args) == 1 {
		// heap(T): any object with elements of type T
		id, ok := hc.Args[0].(*SIdent)
		if !ok {
			env.fail("heap(T) needs a type name")
		}
		t := cenv.resolveType(id.Name)
		if mt, ok := t.Underlying().(*types.Map); ok {
			x.mapHeaps(env.st, mt) // make the three heaps known to the caller's state
			dk, vk, lk := x.ti.MapKeys(mt)
			return []modObj{{key: dk, all: true}, {key: vk, all: true}, {key: lk, all: true}}
		}
		x.heapTerm(env.st, t)
		return []modObj{{key: x.ti.HeapKey(t), all: true}}
	}
	v := x.compile(cenv, e)
	tv, ok := v.(TV)
	if !ok {
		env.fail("location does not denote a heap object")
	}
	add := func(key string, ref *Term) { out = append(out, modObj{key: key, ref: ref, bound: bound, guard: guard}) }
	switch u := tv.Ty.Underlying().(type) {
	case *types.Slice:
		x.heapTerm(env.st, u.Elem())
		add(x.ti.HeapKey(u.Elem()), Sel("s-ref", tv.T))
	case *types.Pointer:
		x.heapTerm(env.st, elemOfPointee(u.Elem()))
		add(x.ti.HeapKey(elemOfPointee(u.Elem())), Sel("p-ref", tv.T))
	case *types.Map:
		x.mapHeaps(env.st, u)
		dk, vk, lk := x.ti.MapKeys(u)
		add(dk, tv.T)
		add(vk, tv.T)
		add(lk, tv.T)
	default:
		env.fail("location has type %s, which is not a heap object", tv.Ty)
	}
	return out
}

func (x *Exec) paramEnvVars(fn *ssa.Function, c *Contract, args []Value) map[string]Value {
	vars := map[string]Value{}
	for i, p := range fn.Params {
		name := p.Name()
		if c != nil && i < len(c.Params) && c.Params[i] != "_" && c.Params[i] != "" {
			name = c.Params[i]
		}
		if i < len(args) {
			vars[name] = args[i]
		}
	}
	return vars
}

// contractCall: the modular rule.
func (x *Exec) contractCall(st *State, in *ssa.Call, fn *ssa.Function, c *Contract, args []Value, key string) []Outcome {
	pos := token.NoPos
	if in != nil {
		pos = in.Pos()
	}
	if c.Opts["functional"] != "" {
		var ts []*Term
		for _, a := range args {
			tv, ok := a.(TV)
			if !ok {
				unsup("functional call %s with non-term argument", key)
			}
			ts = append(ts, tv.T)
		}
		r := x.functionalApp(key, c, fn, ts)
		if tup, ok := r.(Tuple); ok {
			x.noteErrs(st, fn.Signature, []Value(tup))
			return []Outcome{{st, []Value(tup)}}
		}
		return []Outcome{{st, []Value{r}}}
	}
	vars := x.paramEnvVars(fn, c, args)
	pre := &Snapshot{heap: copyHeap(st.heap), vars: vars, alloc: st.alloc}
	env := &Env{x: x, st: st, heap: st.heap, vars: vars, old: pre, alloc: st.alloc}
	if fn.Pkg != nil {
		env.pkg = fn.Pkg.Pkg
	}
	// a closure's contract may name its captured variables
	var fvLookup func(name string) (Value, bool)
	if binds := x.callBindings; len(binds) == len(fn.FreeVars) && len(binds) > 0 {
		fvLookup = func(name string) (Value, bool) {
			for i, f := range fn.FreeVars {
				if f.Name() == name {
					return x.loadQuiet(st, binds[i]), true
				}
			}
			return nil, false
		}
		env.lookup = fvLookup
	}
	for _, r := range c.Requires {
		g := x.compileBool(env, r.Expr, r)
		x.oblige(st, "requires", "call:"+shortKey(key)+"/"+r.Name, g, pos, r)
	}
	mods := x.modObjects(env, c)
	var ws *writeSet
	if fn.Blocks != nil {
		ws = x.v.writeSet(fn)
	} else {
		ws = newWriteSet()
	}
	ws = ws.withMods(x, st, mods)
	if c.Opts["allocates"] != "" {
		ws.allocates = true
	}
	x.havocHeaps(st, ws, mods, true)
	sig := fn.Signature
	results := x.freshResults(st, sig.Results(), sanitize(fn.Name()))
	post := &Env{x: x, st: st, heap: st.heap, vars: map[string]Value{}, old: pre, alloc: st.alloc, pkg: env.pkg}
	post.lookup = fvLookup
	for k, v := range vars {
		post.vars[k] = v
	}
	x.bindResults(post, sig, c, results)
	for _, e := range c.Ensures {
		st.assume(x.compileBool(post, e.Expr, e))
	}
	if c.Trusted || fn.Blocks == nil {
		x.assumeNote("trusted contract: " + key)
	}
	x.noteErrs(st, sig, results)
	return []Outcome{{st, results}}
}

// noteErrs maintains the ghost flag errseen(): some callee on this path
// returned a non-nil error.
func (x *Exec) noteErrs(st *State, sig *types.Signature, results []Value) {
	for i, r := range results {
		if i >= sig.Results().Len() {
			break
		}
		if !isErrorType(sig.Results().At(i).Type()) {
			continue
		}
		if tv, ok := r.(TV); ok && tv.T.Sort == SIface {
			ne := Not(Eq(tv.T, Atom("iface-nil", SIface)))
			if st.errSeen == nil {
				st.errSeen = ne
			} else {
				st.errSeen = Or(st.errSeen, ne)
			}
		}
	}
}

func isErrorType(t types.Type) bool {
	n, ok := types.Unalias(t).(*types.Named)
	return ok && n.Obj().Pkg() == nil && n.Obj().Name() == "error"
}

// materialise: a pointer into the middle of an object (a field of a heap
// struct, or a local) passed to a function with a contract is replaced, for the
// duration of the call, by a pointer to a fresh object holding a copy; the
// result is copied back afterwards.  Sound as long as the callee neither
// retains the pointer nor reaches the enclosing object by another route.
func (x *Exec) materialise(st *State, a Value) (TV, func(st *State), bool) {
	var ty types.Type
	switch p := a.(type) {
	case HeapPtr:
		if len(p.Path) == 0 {
			return TV{}, nil, false
		}
		ty = p.Ty
	case CellPtr:
		ty = p.Ty
	default:
		return TV{}, nil, false
	}
	if _, isArr := ty.Underlying().(*types.Array); isArr {
		unsup("pointer to an array inside an object passed to a contract function")
	}
	cur, ok := x.loadQuiet(st, a).(TV)
	if !ok {
		unsup("pointer to a non-term value passed to a contract function")
	}
	ref := x.newRef(st)
	x.heapWrite(st, ty, ref, IntLit(0), cur.T)
	ptr := TV{MkPtr(ref, IntLit(0)), types.NewPointer(ty)}
	x.assumeNote("interior or local pointers passed to contract functions are modelled by copy-in/copy-out")
	back := func(st *State) {
		v := x.heapRead(st, ty, ref, IntLit(0))
		n := len(x.obls)
		x.store(st, a, TV{v, ty}, token.NoPos)
		x.obls = x.obls[:n]
	}
	return ptr, back, true
}

func (x *Exec) bindResults(env *Env, sig *types.Signature, c *Contract, results []Value) {
	for i, r := range results {
		name := ""
		if c != nil && i < len(c.Results) {
			name = c.Results[i]
		}
		if name == "" && sig.Results().At(i).Name() != "" {
			name = sig.Results().At(i).Name()
		}
		if name != "" && name != "_" {
			env.vars[name] = r
		}
		env.vars[fmt.Sprintf("result%d", i)] = r
	}
	if len(results) >= 1 {
		env.vars["result"] = results[0]
	}
}

func shortKey(key string) string {
	return strings.TrimPrefix(key, "golang.org/x/perf/")
}

// ---------------------------------------------------------------------------
// Builtins

func (x *Exec) builtin(st *State, in *ssa.Call, name string, args []Value) []Outcome {
	one := func(v Value) []Outcome { return []Outcome{{st, []Value{v}}} }
	com := in.Common()
	switch name {
	case "len":
		tv := args[0].(TV)
		switch tv.T.Sort {
		case SSlice:
			return one(TV{Sel("s-len", tv.T), types.Typ[types.Int]})
		case SStr:
			return one(TV{App("slen", SInt, tv.T), types.Typ[types.Int]})
		case SInt: // map
			mt := com.Args[0].Type().Underlying().(*types.Map)
			_, _, _, _, _, ln := x.mapHeaps(st, mt)
			t := Ite(Eq(tv.T, IntLit(0)), IntLit(0), Select(ln, tv.T))
			st.assume(Le(IntLit(0), t))
			return one(TV{t, types.Typ[types.Int]})
		}
		if arr, ok := com.Args[0].Type().Underlying().(*types.Array); ok {
			return one(TV{IntLit(arr.Len()), types.Typ[types.Int]})
		}
	case "cap":
		tv := args[0].(TV)
		if tv.T.Sort == SSlice {
			return one(TV{Sel("s-cap", tv.T), types.Typ[types.Int]})
		}
	case "append":
		return x.appendCall(st, in, args)
	case "copy":
		return x.copyCall(st, in, args)
	case "delete":
		mv := args[0].(TV)
		mt := com.Args[0].Type().Underlying().(*types.Map)
		// delete on a nil map is a no-op
		st2 := st
		x.mapDeleteGuarded(st2, mt, mv.T, args[1].(TV).T)
		return []Outcome{{st, nil}}
	case "min", "max":
		a, b := args[0].(TV), args[1].(TV)
		if len(args) != 2 {
			unsup("%s with %d arguments", name, len(args))
		}
		var lt *Term
		switch {
		case a.T.Sort == SInt:
			lt = Lt(a.T, b.T)
		case a.T.Sort.IsFP():
			unsup("min/max on floats")
		default:
			unsup("min/max on %s", a.T.Sort)
		}
		if name == "min" {
			return one(TV{Ite(lt, a.T, b.T), in.Type()})
		}
		return one(TV{Ite(lt, b.T, a.T), in.Type()})
	case "ssa:deferstack":
		return one(TV{Atom("opq-nil", SOpq), in.Type()})
	case "print", "println":
		return []Outcome{{st, nil}}
	case "ssa:wrapnilchk":
		return one(args[0])
	}
	unsup("builtin %s", name)
	return nil
}

func (x *Exec) mapDeleteGuarded(st *State, mt *types.Map, ref, key *Term) {
	// nil map: nothing happens; heaps indexed by ref 0 are never read for membership
	dk, _, lk, dom, _, ln := x.mapHeaps(st, mt)
	had := And(Not(Eq(ref, IntLit(0))), Select(Select(dom, ref), key))
	nd := Store(dom, ref, Store(Select(dom, ref), key, False))
	nl := Store(ln, ref, Sub(Select(ln, ref), Ite(had, IntLit(1), IntLit(0))))
	isNil := Eq(ref, IntLit(0))
	st.heap[dk] = Ite(isNil, dom, nd)
	st.heap[lk] = Ite(isNil, ln, nl)
}

// appendCall models append(s, t...) with both the in-place and the
// reallocating case (the path forks).
func (x *Exec) appendCall(st *State, in *ssa.Call, args []Value) []Outcome {
	s := args[0].(TV)
	rt := in.Type()
	elem := rt.Underlying().(*types.Slice).Elem()
	var k *Term       // number of appended elements
	var get func(st *State, j *Term) *Term
	switch a1 := args[1].(type) {
	case TV:
		switch a1.T.Sort {
		case SSlice:
			k = Sel("s-len", a1.T)
			get = func(st *State, j *Term) *Term {
				return x.heapRead(st, elem, Sel("s-ref", a1.T), Add(Sel("s-off", a1.T), j))
			}
		case SStr: // append([]byte, string...)
			k = App("slen", SInt, a1.T)
			get = func(st *State, j *Term) *Term { return App("sat", SInt, a1.T, j) }
		default:
			unsup("append of %s", a1.T.Sort)
		}
	default:
		unsup("append of %T", args[1])
	}
	ln, cp := Sel("s-len", s.T), Sel("s-cap", s.T)
	newLen := Add(ln, k)
	fits := Le(newLen, cp)
	kv, kConst := k.IntVal()
	small := kConst && kv.IsInt64() && kv.Int64() <= 8

	var outs []Outcome
	// Case 1: fits in place.
	if !fits.IsFalse() {
		s1 := st
		var s2 *State
		if !fits.IsTrue() {
			s2 = st.clone()
			s1.assume(fits)
		}
		if kConst && kv.Sign() == 0 {
			outs = append(outs, Outcome{s1, []Value{TV{s.T, rt}}})
		} else {
			ref, off := Sel("s-ref", s.T), Sel("s-off", s.T)
			// appending k>0 elements in place requires a non-nil backing array
			if small {
				// read all sources first (they may alias the destination)
				var vals []*Term
				for j := int64(0); j < kv.Int64(); j++ {
					vals = append(vals, get(s1, IntLit(j)))
				}
				for j, v := range vals {
					x.heapWrite(s1, elem, ref, Add(Add(off, ln), IntLit(int64(j))), v)
				}
			} else {
				key, h := x.heapTerm(s1, elem)
				oldArr := Select(h, ref)
				na := x.fresh("app", ArraySort(SInt, x.ti.SortOf(elem)))
				j := Atom("j!q", SInt)
				base := Add(off, ln)
				inNew := And(Le(base, j), Lt(j, Add(base, k)))
				s1.assume(&Term{Op: "forall", Sort: SBool, Bound: []*Term{j}, Args: []*Term{
					Ite(inNew, Eq(Select(na, j), get(s1, Sub(j, base))), Eq(Select(na, j), Select(oldArr, j)))}, Pats: []*Term{Select(na, j)}})
				s1.heap[key] = Store(h, ref, na)
			}
			outs = append(outs, Outcome{s1, []Value{TV{MkSlice(ref, off, newLen, cp), rt}}})
		}
		st = s2
	}
	// Case 2: reallocation.
	if st != nil {
		if !fits.IsTrue() {
			st.assume(Not(fits))
		}
		key, h := x.heapTerm(st, elem)
		oldArr := Select(h, Sel("s-ref", s.T))
		off := Sel("s-off", s.T)
		ref := x.newRef(st)
		ncap := x.fresh("newcap", SInt)
		st.assume(Le(newLen, ncap), Le(ncap, IntLitBig(maxLen)))
		na := x.fresh("app", ArraySort(SInt, x.ti.SortOf(elem)))
		j := Atom("j!q", SInt)
		if small {
			st.assume(&Term{Op: "forall", Sort: SBool, Bound: []*Term{j}, Args: []*Term{
				Implies(And(Le(IntLit(0), j), Lt(j, ln)), Eq(Select(na, j), Select(oldArr, Add(off, j))))}, Pats: []*Term{Select(na, j)}})
			var arr *Term = na
			for jj := int64(0); jj < kv.Int64(); jj++ {
				arr = Store(arr, Add(ln, IntLit(jj)), get(st, IntLit(jj)))
			}
			st.heap[key] = Store(h, ref, arr)
		} else {
			inOld := And(Le(IntLit(0), j), Lt(j, ln))
			inNew := And(Le(ln, j), Lt(j, newLen))
			st.assume(&Term{Op: "forall", Sort: SBool, Bound: []*Term{j}, Args: []*Term{
				And(Implies(inOld, Eq(Select(na, j), Select(oldArr, Add(off, j)))),
					Implies(inNew, Eq(Select(na, j), get(st, Sub(j, ln)))))}, Pats: []*Term{Select(na, j)}})
			st.heap[key] = Store(h, ref, na)
		}
		// the same copy fact, triggered from the old array's side (absolute index)
		if v, ok := ln.IntVal(); !ok || v.Sign() != 0 {
			x.counter++
			ja := Atom(fmt.Sprintf("a!c%d", x.counter), SInt)
			st.assume(&Term{Op: "forall", Sort: SBool, Bound: []*Term{ja}, Args: []*Term{
				Implies(And(Le(off, ja), Lt(ja, Add(off, ln))), Eq(Select(na, Sub(ja, off)), Select(oldArr, ja)))}, Pats: []*Term{Select(oldArr, ja)}})
		}
		// the rest of the new backing array is zero
		x.counter++
		jz := Atom(fmt.Sprintf("j!z%d", x.counter), SInt)
		st.assume(&Term{Op: "forall", Sort: SBool, Bound: []*Term{jz}, Args: []*Term{
			Implies(Le(newLen, jz), Eq(Select(na, jz), x.ti.ZeroTerm(elem)))}, Pats: []*Term{Select(na, jz)}})
		outs = append(outs, Outcome{st, []Value{TV{MkSlice(ref, IntLit(0), newLen, ncap), rt}}})
	}
	return outs
}

func (x *Exec) copyCall(st *State, in *ssa.Call, args []Value) []Outcome {
	dst := args[0].(TV)
	src := args[1].(TV)
	elem := dst.Ty.Underlying().(*types.Slice).Elem()
	var slen *Term
	var get func(j *Term) *Term
	if src.T.Sort == SStr {
		slen = App("slen", SInt, src.T)
		get = func(j *Term) *Term { return App("sat", SInt, src.T, j) }
	} else {
		slen = Sel("s-len", src.T)
		_, h0 := x.heapTerm(st, elem)
		get = func(j *Term) *Term { return Select(Select(h0, Sel("s-ref", src.T)), Add(Sel("s-off", src.T), j)) }
	}
	dl := Sel("s-len", dst.T)
	n := Ite(Lt(slen, dl), slen, dl)
	key, h := x.heapTerm(st, elem)
	ref, off := Sel("s-ref", dst.T), Sel("s-off", dst.T)
	oldArr := Select(h, ref)
	na := x.fresh("cpy", ArraySort(SInt, x.ti.SortOf(elem)))
	j := Atom("j!q", SInt)
	in1 := And(Le(off, j), Lt(j, Add(off, n)))
	st.assume(&Term{Op: "forall", Sort: SBool, Bound: []*Term{j}, Args: []*Term{
		Ite(in1, Eq(Select(na, j), get(Sub(j, off))), Eq(Select(na, j), Select(oldArr, j)))}, Pats: []*Term{Select(na, j)}})
	// a copy of zero elements leaves the heap alone (also covers the nil destination)
	st.heap[key] = Ite(Eq(n, IntLit(0)), h, Store(h, ref, na))
	return []Outcome{{st, []Value{TV{n, types.Typ[types.Int]}}}}
}

// sortSliceEffect: sort.Slice(x, less) / sort.SliceStable permute the elements of
// the slice boxed in x: afterwards every element is one of the old elements and
// every old element is still there; everything outside the slice's window is
// untouched.  (The order itself is the business of the library contract.)
func (x *Exec) sortSliceEffect(st *State, in *ssa.Call, args []Value) {
	if len(args) == 0 {
		return
	}
	tv, ok := args[0].(TV)
	if !ok || !strings.HasPrefix(tv.T.Op, "box_") || len(tv.T.Args) != 1 || tv.T.Args[0].Sort != SSlice {
		x.assumeNote("sort.Slice on a value that is not a freshly boxed slice: its permutation of the elements is not modelled")
		return
	}
	var elem types.Type
	if mi, ok := in.Call.Args[0].(*ssa.MakeInterface); ok {
		if sl, ok := mi.X.Type().Underlying().(*types.Slice); ok {
			elem = sl.Elem()
		}
	}
	if elem == nil {
		x.assumeNote("sort.Slice: element type unknown; its permutation of the elements is not modelled")
		return
	}
	sl := tv.T.Args[0]
	ref, off, ln := Sel("s-ref", sl), Sel("s-off", sl), Sel("s-len", sl)
	key, h := x.heapTerm(st, elem)
	oldArr := Select(h, ref)
	na := x.fresh("sorted", ArraySort(SInt, x.ti.SortOf(elem)))
	x.counter++
	a := Atom(fmt.Sprintf("a!s%d", x.counter), SInt)
	b := Atom(fmt.Sprintf("b!s%d", x.counter), SInt)
	in1 := func(v *Term) *Term { return And(Le(off, v), Lt(v, Add(off, ln))) }
	// each new element is an old one, each old element is a new one, the rest is untouched
	st.assume(&Term{Op: "forall", Sort: SBool, Bound: []*Term{a}, Args: []*Term{
		Implies(in1(a), &Term{Op: "exists", Sort: SBool, Bound: []*Term{b}, Args: []*Term{And(in1(b), Eq(Select(na, a), Select(oldArr, b)))}})}, Pats: []*Term{Select(na, a)}})
	st.assume(&Term{Op: "forall", Sort: SBool, Bound: []*Term{b}, Args: []*Term{
		Implies(in1(b), &Term{Op: "exists", Sort: SBool, Bound: []*Term{a}, Args: []*Term{And(in1(a), Eq(Select(na, a), Select(oldArr, b)))}})}, Pats: []*Term{Select(oldArr, b)}})
	x.counter++
	c := Atom(fmt.Sprintf("c!s%d", x.counter), SInt)
	st.assume(&Term{Op: "forall", Sort: SBool, Bound: []*Term{c}, Args: []*Term{
		Implies(Not(in1(c)), Eq(Select(na, c), Select(oldArr, c)))}, Pats: []*Term{Select(na, c)}})
	st.heap[key] = Store(h, ref, na)
}

// formatCall: fmt.Sprintf / fmt.Errorf with a constant number of operands are
// uninterpreted functions of the format string and the boxed operands
// (written sprintf(format, iface(a), …) / errorf(…) in specifications).
func (x *Exec) formatCall(st *State, in *ssa.Call, key string, args []Value) ([]Outcome, bool) {
	var fn string
	switch key {
	case "fmt.Sprintf":
		fn = "sprintf"
	case "fmt.Errorf":
		fn = "errorf"
	default:
		return nil, false
	}
	if len(args) != 2 {
		return nil, false
	}
	format, ok1 := args[0].(TV)
	va, ok2 := args[1].(TV)
	if !ok1 || !ok2 || va.T.Sort != SSlice {
		return nil, false
	}
	n, ok := Sel("s-len", va.T).IntVal()
	if !ok || n.Int64() > 6 {
		return nil, false
	}
	anyT := types.Universe.Lookup("any").Type()
	ops := []*Term{format.T}
	for i := int64(0); i < n.Int64(); i++ {
		ops = append(ops, x.heapRead(st, anyT, Sel("s-ref", va.T), Add(Sel("s-off", va.T), IntLit(i))))
	}
	t := x.formatApp(fn, ops)
	x.assumeNote("fmt.Sprintf/Errorf are uninterpreted functions of the format and the operands")
	if fn == "errorf" {
		st.assume(Not(Eq(t, Atom("iface-nil", SIface))))
		return []Outcome{{st, []Value{TV{t, types.Universe.Lookup("error").Type()}}}}, true
	}
	st.assume(x.ti.WF(t, tString, nil)...)
	return []Outcome{{st, []Value{TV{t, tString}}}}, true
}

func (x *Exec) formatApp(fn string, ops []*Term) *Term {
	name := fmt.Sprintf("%s_%d", fn, len(ops)-1)
	sort := SStr
	if fn == "errorf" {
		sort = SIface
	}
	var ps []string
	for _, o := range ops {
		ps = append(ps, string(o.Sort))
	}
	x.declareFun(name, fmt.Sprintf("(declare-fun %s (%s) %s)", name, strings.Join(ps, " "), sort))
	return App(name, sort, ops...)
}

// funcTypeCall applies the contract of a named function type to a call
// through a value of that type; "self" names the function value.
func (x *Exec) funcTypeCall(st *State, in *ssa.Call, n *types.Named, c *Contract, fv TV) []Outcome {
	com := in.Common()
	sig := com.Signature()
	vars := map[string]Value{"self": fv}
	for i, a := range com.Args {
		name := fmt.Sprintf("_p%d", i)
		if i < len(c.Params) {
			name = c.Params[i]
		}
		vars[name] = x.val(st, a)
	}
	pre := &Snapshot{heap: copyHeap(st.heap), vars: vars, alloc: st.alloc}
	env := &Env{x: x, st: st, heap: st.heap, vars: vars, old: pre, alloc: st.alloc, pkg: n.Obj().Pkg()}
	for _, r := range c.Requires {
		x.oblige(st, "requires", "call:"+n.Obj().Name()+"/"+r.Name, x.compileBool(env, r.Expr, r), in.Pos(), r)
	}
	ws := newWriteSet()
	if c.Opts["allocates"] != "" {
		ws.allocates = true
		before := st.alloc
		st.alloc = x.fresh("alloc", SInt)
		st.assume(Le(before, st.alloc))
	}
	results := x.freshResults(st, sig.Results(), sanitize(n.Obj().Name()))
	post := &Env{x: x, st: st, heap: st.heap, vars: map[string]Value{}, old: pre, alloc: st.alloc, pkg: n.Obj().Pkg()}
	for k, v := range vars {
		post.vars[k] = v
	}
	x.bindResults(post, sig, c, results)
	for _, e := range c.Ensures {
		st.assume(x.compileBool(post, e.Expr, e))
	}
	x.assumeNote("calls through values of type " + n.Obj().Name() + " are assumed to satisfy the type's contract (every function of that type under contract is verified against it)")
	x.noteErrs(st, sig, results)
	return []Outcome{{st, results}}
}
