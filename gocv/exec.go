package main

import (
	"fmt"
	"go/constant"
	"go/token"
	"go/types"
	"math"
	"math/big"
	"regexp"
	"sort"
	"strings"

	"golang.org/x/tools/go/ssa"
)

type unsupported struct{ msg string }

func unsup(f string, args ...any) { panic(unsupported{fmt.Sprintf(f, args...)}) }

// Outcome is a completed path through a function body.
type Outcome struct {
	st      *State
	results []Value
}

// Exec is the per-function verification context.
type Exec struct {
	v        *Verifier
	fn       *ssa.Function
	key      string
	contract *Contract
	ti       *TypeInfo

	decls        []string        // declarations in order
	declared     map[string]bool // symbol -> declared
	axioms       []*Term         // facts about declared symbols (string literals, globals)
	heapElem     map[string]types.Type
	mapValType   map[string]*types.Map
	globalOrder  []*Term // global pointers in creation order (deterministic scripts)
	callBindings []Value // captured variables of the closure being called (contractCall)
	counter      int
	obls         []*Obligation
	labelSeen    map[string]int
	assumptions  map[string]bool
	paths        int
	strLits      map[string]*Term
	globals      map[*ssa.Global]*Term
	cellCtr      int
	noOverflow   bool
	signedWrap   bool
	maxPaths     int
	block        *BlockSpec
	oldHeapOf    map[*Term]map[string]*Term
	recFuncs     map[string]*recFuncInfo
	recOrder     []string
}

func NewExec(v *Verifier, fn *ssa.Function, key string, c *Contract) *Exec {
	return &Exec{v: v, fn: fn, key: key, contract: c, ti: v.ti, declared: map[string]bool{}, heapElem: map[string]types.Type{}, mapValType: map[string]*types.Map{},
		labelSeen: map[string]int{}, assumptions: map[string]bool{}, strLits: map[string]*Term{}, globals: map[*ssa.Global]*Term{}, maxPaths: 6000}
}

func (x *Exec) declare(name string, sort Sort) {
	if x.declared[name] {
		return
	}
	x.declared[name] = true
	x.decls = append(x.decls, fmt.Sprintf("(declare-const %s %s)", name, sort))
}

var preludeDeclared = map[string]bool{"runeAt": true, "runeLen": true}

func (x *Exec) declareFun(name string, decl string) {
	if x.declared[name] || preludeDeclared[name] {
		return
	}
	x.declared[name] = true
	x.decls = append(x.decls, decl)
}

func (x *Exec) fresh(prefix string, sort Sort) *Term {
	x.counter++
	name := fmt.Sprintf("%s!%d", sanitize(prefix), x.counter)
	x.declare(name, sort)
	return Atom(name, sort)
}

func (x *Exec) assumeNote(s string) { x.assumptions[s] = true }

// freshValue makes an unconstrained value of Go type t (with typing facts assumed).
func (x *Exec) freshValue(st *State, prefix string, t types.Type) Value {
	if tup, ok := t.(*types.Tuple); ok {
		var out Tuple
		for i := 0; i < tup.Len(); i++ {
			out = append(out, x.freshValue(st, fmt.Sprintf("%s_%d", prefix, i), tup.At(i).Type()))
		}
		return out
	}
	term := x.fresh(prefix, x.ti.SortOf(t))
	st.assume(x.ti.WF(term, t, st.alloc)...)
	return TV{term, t}
}

// ---------------------------------------------------------------------------
// Heap access

func (x *Exec) heapTerm(st *State, elem types.Type) (string, *Term) {
	key := x.ti.HeapKey(elem)
	if h, ok := st.heap[key]; ok {
		return key, h
	}
	x.heapElem[key] = elem
	if !x.declared[key] {
		x.declare(key, x.ti.HeapSort(elem))
		x.axioms = append(x.axioms, x.heapRefsBounded(Atom(key, x.ti.HeapSort(elem)), elem, Atom("alloc0", SInt))...)
	}
	h := Atom(key, x.ti.HeapSort(elem))
	st.heap[key] = h
	if st.entry != nil {
		if _, ok := st.entry.heap[key]; !ok {
			st.entry.heap[key] = h
		}
	}
	return key, h
}

// refTerms lists the reference components of a value of type t.
func (x *Exec) refTerms(v *Term, t types.Type, depth int) []*Term {
	if depth > 3 {
		return nil
	}
	switch u := t.Underlying().(type) {
	case *types.Slice:
		return []*Term{Sel("s-ref", v)}
	case *types.Pointer:
		return []*Term{Sel("p-ref", v)}
	case *types.Map:
		return []*Term{v}
	case *types.Struct:
		dt := datatypes[v.Sort]
		if dt == nil {
			return nil
		}
		var out []*Term
		for i, f := range dt.fields {
			out = append(out, x.refTerms(Sel(f, v), u.Field(i).Type(), depth+1)...)
		}
		return out
	}
	return nil
}

// heapRefsBounded: every reference stored anywhere in heap h is at most alloc
// (the allocator hands out references in increasing order).
func (x *Exec) heapRefsBounded(h *Term, elem types.Type, alloc *Term) []*Term {
	x.counter++
	r := Atom(fmt.Sprintf("r!w%d", x.counter), SInt)
	i := Atom(fmt.Sprintf("i!w%d", x.counter), SInt)
	cell := App("select", x.ti.SortOf(elem), App("select", ArraySort(SInt, x.ti.SortOf(elem)), h, r), i)
	// typing facts of every stored value (slice shape, integer ranges, reference bounds)
	conj := x.ti.WFHeap(cell, elem, alloc)
	body := And(conj...)
	if body.IsTrue() {
		return nil
	}
	return []*Term{{Op: "forall", Sort: SBool, Bound: []*Term{r, i}, Args: []*Term{body}, Pats: []*Term{cell}}}
}

// mapRefsBounded: the same typing facts for every value stored in a map heap.
func (x *Exec) mapRefsBounded(h *Term, mt *types.Map, alloc *Term) []*Term {
	x.counter++
	ks, vs := x.ti.SortOf(mt.Key()), x.ti.SortOf(mt.Elem())
	r := Atom(fmt.Sprintf("r!w%d", x.counter), SInt)
	k := Atom(fmt.Sprintf("k!w%d", x.counter), ks)
	cell := App("select", vs, App("select", ArraySort(ks, vs), h, r), k)
	body := And(x.ti.WFHeap(cell, mt.Elem(), alloc)...)
	if body.IsTrue() {
		return nil
	}
	return []*Term{{Op: "forall", Sort: SBool, Bound: []*Term{r, k}, Args: []*Term{body}, Pats: []*Term{cell}}}
}

func (x *Exec) heapByKey(st *State, key string, sort Sort) *Term {
	if h, ok := st.heap[key]; ok {
		return h
	}
	x.declare(key, sort)
	h := Atom(key, sort)
	st.heap[key] = h
	if st.entry != nil {
		if _, ok := st.entry.heap[key]; !ok {
			st.entry.heap[key] = h
		}
	}
	return h
}

// elemHeapType: a pointer to [N]T addresses N consecutive T objects.
func elemOfPointee(t types.Type) types.Type {
	if a, ok := t.Underlying().(*types.Array); ok {
		return a.Elem()
	}
	return t
}

func (x *Exec) heapRead(st *State, elem types.Type, ref, idx *Term) *Term {
	_, h := x.heapTerm(st, elem)
	return Select(Select(h, ref), idx)
}

func (x *Exec) heapWrite(st *State, elem types.Type, ref, idx, v *Term) {
	key, h := x.heapTerm(st, elem)
	st.heap[key] = Store(h, ref, Store(Select(h, ref), idx, v))
}

func (x *Exec) newRef(st *State) *Term {
	st.alloc = Add(st.alloc, IntLit(1))
	return st.alloc
}

// allocObject allocates a fresh object whose elements (of type elem) are zero.
func (x *Exec) allocObject(st *State, elem types.Type) *Term {
	ref := x.newRef(st)
	key, h := x.heapTerm(st, elem)
	es := x.ti.SortOf(elem)
	st.heap[key] = Store(h, ref, ConstArray(ArraySort(SInt, es), x.ti.ZeroTerm(elem)))
	return ref
}

// ---------------------------------------------------------------------------
// Path access inside compound values

func (x *Exec) pathGet(t *Term, path []PathElem) *Term {
	for _, pe := range path {
		if pe.Field >= 0 {
			dt := datatypes[t.Sort]
			if dt == nil {
				unsup("field access on sort %s", t.Sort)
			}
			t = Sel(dt.fields[pe.Field], t)
		} else {
			t = Select(t, pe.Index)
		}
	}
	return t
}

func (x *Exec) pathSet(t *Term, path []PathElem, v *Term) *Term {
	if len(path) == 0 {
		return v
	}
	pe := path[0]
	if pe.Field >= 0 {
		dt := datatypes[t.Sort]
		if dt == nil {
			unsup("field update on sort %s", t.Sort)
		}
		inner := x.pathSet(Sel(dt.fields[pe.Field], t), path[1:], v)
		return UpdateField(t, pe.Field, inner)
	}
	inner := x.pathSet(Select(t, pe.Index), path[1:], v)
	return Store(t, pe.Index, inner)
}

func pathType(t types.Type, path []PathElem) types.Type {
	for _, pe := range path {
		if pe.Field >= 0 {
			t = t.Underlying().(*types.Struct).Field(pe.Field).Type()
		} else {
			t = t.Underlying().(*types.Array).Elem()
		}
	}
	return t
}

// load dereferences a pointer value.
func (x *Exec) load(st *State, p Value, pos token.Pos) Value {
	switch p := p.(type) {
	case CellPtr:
		cv, ok := st.cells[p.Cell]
		if !ok {
			unsup("load from dead cell %s", p.Cell.name)
		}
		if len(p.Path) == 0 {
			return cv
		}
		tv, ok := cv.(TV)
		if !ok {
			unsup("path load from non-term cell %s", p.Cell.name)
		}
		return TV{x.pathGet(tv.T, p.Path), p.Ty}
	case HeapPtr:
		ref, idx := Sel("p-ref", p.Base), Sel("p-idx", p.Base)
		x.oblige(st, "safety", "nil-deref", Not(Eq(ref, IntLit(0))), pos, nil)
		obj := x.heapRead(st, p.Obj, ref, idx)
		t := x.pathGet(obj, p.Path)
		st.assume(x.ti.WF(t, p.Ty, st.alloc)...)
		return TV{t, p.Ty}
	case TV:
		pt, ok := p.Ty.Underlying().(*types.Pointer)
		if !ok {
			unsup("load through non-pointer %s", p.Ty)
		}
		ref, idx := Sel("p-ref", p.T), Sel("p-idx", p.T)
		x.oblige(st, "safety", "nil-deref", Not(Eq(ref, IntLit(0))), pos, nil)
		if arr, ok := pt.Elem().Underlying().(*types.Array); ok {
			// load a whole array value: build it from the element heap
			n := arr.Len()
			if n > 16 {
				unsup("load of array value of length %d", n)
			}
			es := x.ti.SortOf(arr.Elem())
			var t *Term = ConstArray(ArraySort(SInt, es), x.ti.ZeroTerm(arr.Elem()))
			for i := int64(0); i < n; i++ {
				t = Store(t, IntLit(i), x.heapRead(st, arr.Elem(), ref, Add(idx, IntLit(i))))
			}
			return TV{t, pt.Elem()}
		}
		t := x.heapRead(st, pt.Elem(), ref, idx)
		st.assume(x.ti.WF(t, pt.Elem(), st.alloc)...)
		return TV{t, pt.Elem()}
	}
	unsup("load through %T", p)
	return nil
}

func (x *Exec) store(st *State, p Value, v Value, pos token.Pos) {
	switch p := p.(type) {
	case CellPtr:
		if len(p.Path) == 0 {
			st.cells[p.Cell] = v
			return
		}
		cv, ok := st.cells[p.Cell].(TV)
		if !ok {
			unsup("path store into non-term cell %s", p.Cell.name)
		}
		tv, ok := v.(TV)
		if !ok {
			unsup("store of %T into a field of local %s", v, p.Cell.name)
		}
		st.cells[p.Cell] = TV{x.pathSet(cv.T, p.Path, tv.T), cv.Ty}
	case HeapPtr:
		if _, isFn := v.(FuncV); isFn {
			// a closure stored in memory is an opaque function value
			v = TV{x.fresh("closure", SOpq), p.Ty}
		}
		tv, ok := v.(TV)
		if !ok {
			unsup("store of %T into heap", v)
		}
		ref, idx := Sel("p-ref", p.Base), Sel("p-idx", p.Base)
		x.oblige(st, "safety", "nil-deref", Not(Eq(ref, IntLit(0))), pos, nil)
		obj := x.heapRead(st, p.Obj, ref, idx)
		x.heapWrite(st, p.Obj, ref, idx, x.pathSet(obj, p.Path, tv.T))
	case TV:
		pt, ok := p.Ty.Underlying().(*types.Pointer)
		if !ok {
			unsup("store through non-pointer %s", p.Ty)
		}
		if _, isFn := v.(FuncV); isFn {
			v = TV{x.fresh("closure", SOpq), pt.Elem()}
		}
		tv, ok := v.(TV)
		if !ok {
			unsup("store of %T into heap", v)
		}
		ref, idx := Sel("p-ref", p.T), Sel("p-idx", p.T)
		x.oblige(st, "safety", "nil-deref", Not(Eq(ref, IntLit(0))), pos, nil)
		if arr, ok := pt.Elem().Underlying().(*types.Array); ok {
			n := arr.Len()
			if n > 16 {
				unsup("store of array value of length %d", n)
			}
			for i := int64(0); i < n; i++ {
				x.heapWrite(st, arr.Elem(), ref, Add(idx, IntLit(i)), Select(tv.T, IntLit(i)))
			}
			return
		}
		x.heapWrite(st, pt.Elem(), ref, idx, tv.T)
	default:
		unsup("store through %T", p)
	}
}

// ---------------------------------------------------------------------------
// Obligations

func (x *Exec) position(pos token.Pos) token.Position {
	if pos == token.NoPos {
		return token.Position{}
	}
	return x.v.fset.Position(pos)
}

func (x *Exec) oblige(st *State, kind, what string, goal *Term, pos token.Pos, cl *Clause) {
	if goal.IsTrue() || st.dead {
		return
	}
	if goal.Op == "and" && len(goal.Args) > 1 && kind != "safety" {
		// one obligation per conjunct: smaller queries, and a failure names the conjunct
		for i, g := range goal.Args {
			x.oblige(st, kind, fmt.Sprintf("%s.%d", what, i+1), g, pos, cl)
		}
		return
	}
	if kind == "safety" && what == "overflow" && x.noOverflow {
		return
	}
	p := x.position(pos)
	base := fmt.Sprintf("%s/%s/%s", x.key, kind, what)
	if kind == "safety" && p.IsValid() {
		// name safety obligations by their ordinal in the function, not by line
		base = fmt.Sprintf("%s/%s/%s", x.key, kind, what)
	}
	x.labelSeen[base]++
	o := &Obligation{Fn: x.key, Kind: kind, Label: base, Hyps: append([]*Term(nil), st.hyps...), Goal: goal, Pos: p, Path: append([]int(nil), st.trace...), Clause: cl}
	x.obls = append(x.obls, o)
}

// ---------------------------------------------------------------------------
// Constants

func (x *Exec) strLit(s string) *Term {
	if s == "" {
		return Atom("str-empty", SStr)
	}
	if t, ok := x.strLits[s]; ok {
		return t
	}
	name := fmt.Sprintf("strlit!%d", len(x.strLits)+1)
	x.declare(name, SStr)
	t := Atom(name, SStr)
	x.strLits[s] = t
	x.axioms = append(x.axioms, Eq(App("slen", SInt, t), IntLit(int64(len(s)))))
	n := len(s)
	if n > 80 {
		n = 80
	}
	for i := 0; i < n; i++ {
		x.axioms = append(x.axioms, Eq(App("sat", SInt, t, IntLit(int64(i))), IntLit(int64(s[i]))))
	}
	return t
}

func fpLit(f float64) *Term {
	if math.IsNaN(f) {
		return Atom("(_ NaN 11 53)", SF64)
	}
	b := math.Float64bits(f)
	s := fmt.Sprintf("(fp #b%01b #b%011b #b%052b)", b>>63, (b>>52)&0x7ff, b&((1<<52)-1))
	return Atom(s, SF64)
}

func bvLit(n *big.Int, width int) *Term {
	m := new(big.Int).Lsh(big.NewInt(1), uint(width))
	v := new(big.Int).Mod(n, m)
	s := fmt.Sprintf("#x%0*x", width/4, v)
	if width == 64 {
		return Atom(s, SBV64)
	}
	return Atom(s, SBV32)
}

func (x *Exec) constValue(c *ssa.Const) Value {
	t := c.Type()
	if c.Value == nil {
		if _, ok := t.Underlying().(*types.Basic); ok && t.Underlying().(*types.Basic).Kind() == types.UntypedNil {
			return TV{Atom("opq-nil", SOpq), t}
		}
		return TV{x.ti.ZeroTerm(t), t}
	}
	sort := x.ti.SortOf(t)
	switch c.Value.Kind() {
	case constant.Bool:
		if constant.BoolVal(c.Value) {
			return TV{True, t}
		}
		return TV{False, t}
	case constant.String:
		return TV{x.strLit(constant.StringVal(c.Value)), t}
	case constant.Int:
		n, _ := new(big.Int).SetString(c.Value.ExactString(), 10)
		switch {
		case sort == SInt:
			return TV{IntLitBig(n), t}
		case sort.IsBV():
			return TV{bvLit(n, sort.BVWidth()), t}
		case sort == SF64:
			f, _ := new(big.Float).SetInt(n).Float64()
			return TV{fpLit(f), t}
		}
	case constant.Float:
		if sort == SF64 {
			f, _ := constant.Float64Val(c.Value)
			return TV{fpLit(f), t}
		}
		if sort == SInt {
			if iv := constant.ToInt(c.Value); iv.Kind() == constant.Int {
				n, _ := new(big.Int).SetString(iv.ExactString(), 10)
				return TV{IntLitBig(n), t}
			}
		}
	}
	unsup("constant %s of type %s", c, t)
	return nil
}

func (x *Exec) globalPtr(g *ssa.Global) *Term {
	if t, ok := x.globals[g]; ok {
		return t
	}
	name := "gref!" + sanitize(g.Pkg.Pkg.Name()+"_"+g.Name())
	x.declare(name, SInt)
	ref := Atom(name, SInt)
	x.axioms = append(x.axioms, Lt(IntLit(0), ref), Le(ref, Atom("alloc0", SInt)))
	for _, o := range x.globalOrder {
		x.axioms = append(x.axioms, Not(Eq(Sel("p-ref", o), ref)))
	}
	p := MkPtr(ref, IntLit(0))
	x.globals[g] = p
	x.globalOrder = append(x.globalOrder, p)
	return p
}

func (x *Exec) val(st *State, v ssa.Value) Value {
	switch v := v.(type) {
	case *ssa.Const:
		return x.constValue(v)
	case *ssa.Global:
		return TV{x.globalPtr(v), v.Type()}
	case *ssa.Function:
		return FuncV{Fn: v}
	case *ssa.Builtin:
		return BuiltinV{v.Name()}
	}
	fr := st.top()
	if r, ok := fr.regs[v]; ok {
		return r
	}
	unsup("use of undefined SSA value %s (%T) in %s", v.Name(), v, fr.fn.Name())
	return nil
}

func (x *Exec) term(st *State, v ssa.Value) *Term {
	val := x.val(st, v)
	tv, ok := val.(TV)
	if !ok {
		if hp, ok := val.(HeapPtr); ok && len(hp.Path) == 0 {
			return hp.Base
		}
		unsup("SSA value %s is %T, expected a term", v.Name(), val)
	}
	return tv.T
}

// ---------------------------------------------------------------------------
// Running

func (x *Exec) newCell(st *State, a *ssa.Alloc, ty types.Type, name string) *Cell {
	x.cellCtr++
	c := &Cell{id: x.cellCtr, name: name, ty: ty, alloc: a}
	return c
}

func (x *Exec) run(st *State, b *ssa.BasicBlock, start int) []Outcome {
	fr := st.top()
	st.trace = append(st.trace, b.Index)
	for i := start; i < len(b.Instrs); i++ {
		if st.dead {
			return nil
		}
		switch in := b.Instrs[i].(type) {
		case *ssa.If:
			cond := x.term(st, in.Cond)
			var outs []Outcome
			if cond.IsTrue() {
				return x.enter(st, b, b.Succs[0])
			}
			if cond.IsFalse() {
				return x.enter(st, b, b.Succs[1])
			}
			st2 := st.clone()
			st.assume(cond)
			st2.assume(Not(cond))
			outs = append(outs, x.enter(st, b, b.Succs[0])...)
			outs = append(outs, x.enter(st2, b, b.Succs[1])...)
			return outs
		case *ssa.Jump:
			return x.enter(st, b, b.Succs[0])
		case *ssa.Return:
			var res []Value
			for _, r := range in.Results {
				res = append(res, x.val(st, r))
			}
			x.paths++
			if x.paths > x.maxPaths {
				unsup("more than %d paths", x.maxPaths)
			}
			return []Outcome{{st, res}}
		case *ssa.Panic:
			x.oblige(st, "safety", "panic", False, in.Pos(), nil)
			return nil
		case *ssa.Call:
			outs := x.doCall(st, in)
			if len(outs) == 1 && outs[0].st == st {
				x.setReg(st, in, outs[0].results)
				x.compactHeaps(st)
				continue
			}
			var all []Outcome
			for _, o := range outs {
				x.setReg(o.st, in, o.results)
				x.compactHeaps(o.st)
				// continue after the call on each outcome
				o.st.trace = o.st.trace[:len(o.st.trace):len(o.st.trace)]
				all = append(all, x.runRest(o.st, b, i+1)...)
			}
			return all
		default:
			forks := x.step(st, fr, b.Instrs[i])
			x.compactHeaps(st)
			if forks != nil {
				var all []Outcome
				for _, s2 := range forks {
					all = append(all, x.runRest(s2, b, i+1)...)
				}
				return all
			}
		}
	}
	unsup("block %d of %s falls off the end", b.Index, fr.fn.Name())
	return nil
}

func (x *Exec) runRest(st *State, b *ssa.BasicBlock, i int) []Outcome {
	// like run but without re-adding the block to the trace
	if len(st.trace) > 0 {
		st.trace = st.trace[:len(st.trace)-1]
	}
	return x.run(st, b, i)
}

func (x *Exec) setReg(st *State, in *ssa.Call, results []Value) {
	fr := st.top()
	switch len(results) {
	case 0:
		fr.regs[in] = Tuple(nil)
	case 1:
		fr.regs[in] = results[0]
	default:
		fr.regs[in] = Tuple(results)
	}
}

// enter transfers control along the edge from -> to, applying loop cuts.
func (x *Exec) enter(st *State, from, to *ssa.BasicBlock) []Outcome {
	if st.dead {
		return nil
	}
	fr := st.top()
	fr.prev = from
	if x.block != nil && len(st.frames) == 1 && x.block.isEnd(from, to) {
		return []Outcome{{st, nil}}
	}
	li := x.v.loopInfo(fr.fn)[to]
	if li == nil {
		return x.run(st, to, 0)
	}
	var spec *LoopSpec
	if fr.contract != nil {
		spec = fr.contract.Loops[li.ordinal]
	}
	if spec == nil {
		unsup("loop %d of %s has no invariant", li.ordinal, fr.fn.Name())
	}
	env := x.loopEnv(st, fr, li)
	if li.body[from] && fr.entered[to] {
		// back edge: invariant preserved, variant decreases
		for _, inv := range spec.Invariants {
			g := x.compileBool(env, inv.Expr, inv)
			x.oblige(st, "inv-preserved", inv.Name+"/preserved", g, li.pos, inv)
		}
		if spec.Decreases != nil {
			nv := x.compileInt(env, spec.Decreases.Expr, spec.Decreases)
			ov := fr.variants[to]
			x.oblige(st, "variant", spec.Decreases.Name+"/decreases", And(Lt(nv, ov), Le(IntLit(0), ov)), li.pos, spec.Decreases)
		}
		return nil
	}
	// loop entry
	for _, inv := range spec.Invariants {
		g := x.compileBool(env, inv.Expr, inv)
		x.oblige(st, "inv-entry", inv.Name+"/entry", g, li.pos, inv)
	}
	x.havocLoop(st, fr, li)
	env = x.loopEnv(st, fr, li)
	for _, inv := range spec.Invariants {
		st.assume(x.compileBool(env, inv.Expr, inv))
	}
	if spec.Decreases != nil {
		fr.variants[to] = x.compileInt(env, spec.Decreases.Expr, spec.Decreases)
	}
	fr.entered[to] = true
	return x.run(st, to, 0)
}

func (x *Exec) havocLoop(st *State, fr *Frame, li *loopInfo) {
	// the allocation counter first: values created below are bounded by the new one
	if li.allocates {
		before := st.alloc
		st.alloc = x.fresh("alloc", SInt)
		st.assume(Le(before, st.alloc))
	}
	for _, a := range li.modAllocs {
		c := fr.allocCell[a]
		if c == nil {
			continue // declared inside the loop
		}
		if _, ok := st.cells[c].(TV); !ok {
			if _, isIter := st.cells[c].(IterV); isIter {
				continue
			}
			unsup("loop %d modifies non-term local %s", li.ordinal, c.name)
		}
		st.cells[c] = x.freshValue(st, "lv_"+c.name, c.ty)
	}
	// the ghost flag is unknown at an arbitrary iteration; invariants may constrain it
	st.errSeen = x.fresh("errseen", SBool)
	if li.rangeIter != nil {
		if it, ok := fr.regs[li.rangeIter].(IterV); ok {
			if it.MapT != nil {
				ks := x.ti.SortOf(it.MapT.Key())
				st.cells[it.Cell] = TV{x.fresh("visited", ArraySort(ks, SBool)), nil}
			} else {
				pos := x.fresh("iterpos", SInt)
				st.assume(Le(IntLit(0), pos), Le(pos, App("slen", SInt, it.Str)))
				st.cells[it.Cell] = TV{pos, types.Typ[types.Int]}
			}
		}
	}
	for _, k := range li.heapKeys {
		if _, ok := st.heap[k.key]; !ok {
			x.heapByKey(st, k.key, k.sort)
		}
		nh := x.fresh(k.key, k.sort)
		st.heap[k.key] = nh
		if et, ok := x.heapElem[k.key]; ok {
			st.assume(x.heapRefsBounded(nh, et, st.alloc)...)
		}
		if mt, ok := x.mapValType[k.key]; ok {
			st.assume(x.mapRefsBounded(nh, mt, st.alloc)...)
		}
	}
}

// loopEnv: names resolve to the current values of locals in scope.
func (x *Exec) loopEnv(st *State, fr *Frame, li *loopInfo) *Env {
	env := x.baseEnv(st, fr)
	env.idx = func() *Term {
		if li.rangeIdx != nil {
			c := fr.allocCell[li.rangeIdx]
			if c != nil {
				if tv, ok := st.cells[c].(TV); ok {
					return Add(tv.T, IntLit(1))
				}
			}
		}
		if li.rangeIter != nil {
			if it, ok := fr.regs[li.rangeIter].(IterV); ok && it.MapT == nil {
				if tv, ok := st.cells[it.Cell].(TV); ok {
					return tv.T
				}
			}
		}
		unsup("idx() used in a loop that is not a slice or string range loop")
		return nil
	}
	env.rlen = func() *Term {
		if li.rangeLen != nil {
			if tv, ok := fr.regs[li.rangeLen].(TV); ok {
				return tv.T
			}
		}
		unsup("rlen() used in a loop that is not a slice range loop")
		return nil
	}
	env.visited = func() *Term {
		if li.rangeIter != nil {
			if it, ok := fr.regs[li.rangeIter].(IterV); ok && it.MapT != nil {
				return st.cells[it.Cell].(TV).T
			}
		}
		unsup("visited() used in a loop that is not a map range loop")
		return nil
	}
	return env
}

// baseEnv resolves identifiers against locals (by name) of the frame.
func (x *Exec) baseEnv(st *State, fr *Frame) *Env {
	env := &Env{x: x, st: st, heap: st.heap, old: st.entry, alloc: st.alloc}
	env.lookup = func(name string) (Value, bool) {
		var best *Cell
		for a, c := range fr.allocCell {
			if a.Comment == name {
				if _, live := st.cells[c]; !live {
					continue
				}
				if best == nil || a.Pos() > best.alloc.Pos() {
					best = c
				}
			}
		}
		if best != nil {
			return st.cells[best], true
		}
		// heap-allocated (escaping) locals
		for _, b := range fr.fn.Blocks {
			for _, in := range b.Instrs {
				if a, ok := in.(*ssa.Alloc); ok && a.Heap && a.Comment == name {
					if pv, ok := fr.regs[a]; ok {
						return x.loadQuiet(st, pv), true
					}
				}
			}
		}
		// parameters that were never spilled (no Alloc) and free variables
		for _, p := range fr.fn.Params {
			if p.Name() == name {
				if v, ok := fr.regs[p]; ok {
					return v, true
				}
			}
		}
		for _, fv := range fr.fn.FreeVars {
			if fv.Name() == name {
				if v, ok := fr.regs[fv]; ok {
					return x.loadQuiet(st, v), true
				}
			}
		}
		return nil, false
	}
	return env
}

// loadQuiet loads through a pointer without emitting obligations (spec use).
func (x *Exec) loadQuiet(st *State, p Value) Value {
	n := len(x.obls)
	saved := st.hyps
	v := x.load(st, p, token.NoPos)
	x.obls = x.obls[:n]
	_ = saved
	return v
}

// step executes a non-control instruction.  It returns nil when the state
// continues unforked, or the list of successor states when it forks.
func (x *Exec) step(st *State, fr *Frame, instr ssa.Instruction) []*State {
	switch in := instr.(type) {
	case *ssa.DebugRef, *ssa.RunDefers:
		return nil
	case *ssa.Alloc:
		elem := in.Type().Underlying().(*types.Pointer).Elem()
		if !in.Heap {
			c := x.newCell(st, in, elem, in.Comment)
			fr.allocCell[in] = c
			st.cells[c] = TV{x.ti.ZeroTerm(elem), elem}
			fr.regs[in] = CellPtr{Cell: c, Ty: elem}
			return nil
		}
		ref := x.allocObject(st, elemOfPointee(elem))
		fr.regs[in] = TV{MkPtr(ref, IntLit(0)), in.Type()}
		return nil
	case *ssa.Store:
		x.store(st, x.val(st, in.Addr), x.val(st, in.Val), in.Pos())
		return nil
	case *ssa.UnOp:
		fr.regs[in] = x.unop(st, in)
		return nil
	case *ssa.BinOp:
		fr.regs[in] = x.binop(st, in.Op, x.val(st, in.X), x.val(st, in.Y), in.Type(), in.Pos())
		return nil
	case *ssa.FieldAddr:
		base := x.val(st, in.X)
		st0 := in.X.Type().Underlying().(*types.Pointer).Elem()
		fty := st0.Underlying().(*types.Struct).Field(in.Field).Type()
		switch p := base.(type) {
		case CellPtr:
			fr.regs[in] = CellPtr{Cell: p.Cell, Path: appendPath(p.Path, PathElem{Field: in.Field}), Ty: fty}
		case HeapPtr:
			fr.regs[in] = HeapPtr{Base: p.Base, Obj: p.Obj, Path: appendPath(p.Path, PathElem{Field: in.Field}), Ty: fty}
		case TV:
			x.oblige(st, "safety", "nil-deref", Not(Eq(Sel("p-ref", p.T), IntLit(0))), in.Pos(), nil)
			fr.regs[in] = HeapPtr{Base: p.T, Obj: st0, Path: []PathElem{{Field: in.Field}}, Ty: fty}
		default:
			unsup("FieldAddr on %T", base)
		}
		return nil
	case *ssa.Field:
		tv := x.val(st, in.X).(TV)
		dt := datatypes[tv.T.Sort]
		fty := in.X.Type().Underlying().(*types.Struct).Field(in.Field).Type()
		fr.regs[in] = TV{Sel(dt.fields[in.Field], tv.T), fty}
		return nil
	case *ssa.IndexAddr:
		x.indexAddr(st, fr, in)
		return nil
	case *ssa.Index:
		// array value or string? (strings use Lookup) — arrays only
		av := x.val(st, in.X).(TV)
		idx := x.term(st, in.Index)
		if av.T.Sort == SStr {
			x.oblige(st, "safety", "index", And(Le(IntLit(0), idx), Lt(idx, App("slen", SInt, av.T))), in.Pos(), nil)
			t := App("sat", SInt, av.T, idx)
			st.assume(Le(IntLit(0), t), Le(t, IntLit(255)))
			fr.regs[in] = TV{t, types.Typ[types.Uint8]}
			return nil
		}
		arr := in.X.Type().Underlying().(*types.Array)
		x.oblige(st, "safety", "index", And(Le(IntLit(0), idx), Lt(idx, IntLit(arr.Len()))), in.Pos(), nil)
		fr.regs[in] = TV{Select(av.T, idx), arr.Elem()}
		return nil
	case *ssa.Slice:
		fr.regs[in] = x.sliceOp(st, in)
		return nil
	case *ssa.Extract:
		tup, ok := x.val(st, in.Tuple).(Tuple)
		if !ok {
			unsup("extract from %T", x.val(st, in.Tuple))
		}
		fr.regs[in] = tup[in.Index]
		return nil
	case *ssa.Phi:
		for i, p := range in.Block().Preds {
			if p == fr.prev {
				fr.regs[in] = x.val(st, in.Edges[i])
				return nil
			}
		}
		unsup("phi without matching predecessor")
	case *ssa.ChangeType:
		v := x.val(st, in.X)
		if tv, ok := v.(TV); ok {
			if x.ti.SortOf(in.Type()) != tv.T.Sort {
				unsup("changetype between sorts %s and %s", tv.T.Sort, x.ti.SortOf(in.Type()))
			}
			fr.regs[in] = TV{tv.T, in.Type()}
		} else {
			fr.regs[in] = v
		}
		return nil
	case *ssa.Convert:
		fr.regs[in] = x.convert(st, x.val(st, in.X), in.X.Type(), in.Type(), in.Pos())
		return nil
	case *ssa.MakeInterface:
		fr.regs[in] = x.makeInterface(st, x.val(st, in.X), in.X.Type(), in.Type())
		return nil
	case *ssa.ChangeInterface:
		tv := x.val(st, in.X).(TV)
		fr.regs[in] = TV{tv.T, in.Type()}
		return nil
	case *ssa.TypeAssert:
		return x.typeAssert(st, fr, in)
	case *ssa.MakeSlice:
		ln := x.term(st, in.Len)
		cp := x.term(st, in.Cap)
		x.oblige(st, "safety", "makeslice", And(Le(IntLit(0), ln), Le(ln, cp)), in.Pos(), nil)
		elem := in.Type().Underlying().(*types.Slice).Elem()
		ref := x.allocObject(st, elem)
		fr.regs[in] = TV{MkSlice(ref, IntLit(0), ln, cp), in.Type()}
		return nil
	case *ssa.MakeMap:
		mt := in.Type().Underlying().(*types.Map)
		ref := x.newRef(st)
		x.mapInit(st, mt, ref)
		fr.regs[in] = TV{ref, in.Type()}
		return nil
	case *ssa.Lookup:
		x.lookup(st, fr, in)
		return nil
	case *ssa.MapUpdate:
		x.mapUpdate(st, in)
		return nil
	case *ssa.Range:
		sv := x.val(st, in.X)
		tv, ok := sv.(TV)
		if mt, isMap := in.X.Type().Underlying().(*types.Map); ok && isMap {
			ks := x.ti.SortOf(mt.Key())
			c := x.newCell(st, nil, nil, "visited")
			st.cells[c] = TV{ConstArray(ArraySort(ks, SBool), False), nil}
			fr.regs[in] = IterV{Map: tv.T, MapT: mt, Cell: c}
			return nil
		}
		if !ok || tv.T.Sort != SStr {
			unsup("range over %s (only strings and maps are iterated via Range)", in.X.Type())
		}
		c := x.newCell(st, nil, types.Typ[types.Int], "iterpos")
		st.cells[c] = TV{IntLit(0), types.Typ[types.Int]}
		fr.regs[in] = IterV{Str: tv.T, Cell: c}
		return nil
	case *ssa.Next:
		return x.next(st, fr, in)
	case *ssa.MakeClosure:
		var b []Value
		for _, bv := range in.Bindings {
			b = append(b, x.val(st, bv))
		}
		fr.regs[in] = FuncV{Fn: in.Fn.(*ssa.Function), Bindings: b}
		return nil
	case *ssa.Defer:
		unsup("defer")
	case *ssa.Go:
		unsup("go statement")
	case *ssa.Send, *ssa.Select:
		unsup("channel operation")
	}
	unsup("instruction %T (%s)", instr, instr)
	return nil
}

func appendPath(p []PathElem, e PathElem) []PathElem {
	n := make([]PathElem, len(p)+1)
	copy(n, p)
	n[len(p)] = e
	return n
}

func (x *Exec) indexAddr(st *State, fr *Frame, in *ssa.IndexAddr) {
	base := x.val(st, in.X)
	idx := x.term(st, in.Index)
	if idx.Sort.IsBV() {
		unsup("bit-vector index")
	}
	switch xt := in.X.Type().Underlying().(type) {
	case *types.Slice:
		tv := base.(TV)
		x.oblige(st, "safety", "index", And(Le(IntLit(0), idx), Lt(idx, Sel("s-len", tv.T))), in.Pos(), nil)
		fr.regs[in] = TV{MkPtr(Sel("s-ref", tv.T), Add(Sel("s-off", tv.T), idx)), in.Type()}
	case *types.Pointer:
		arr := xt.Elem().Underlying().(*types.Array)
		x.oblige(st, "safety", "index", And(Le(IntLit(0), idx), Lt(idx, IntLit(arr.Len()))), in.Pos(), nil)
		switch p := base.(type) {
		case CellPtr:
			fr.regs[in] = CellPtr{Cell: p.Cell, Path: appendPath(p.Path, PathElem{Field: -1, Index: idx}), Ty: arr.Elem()}
		case HeapPtr:
			fr.regs[in] = HeapPtr{Base: p.Base, Obj: p.Obj, Path: appendPath(p.Path, PathElem{Field: -1, Index: idx}), Ty: arr.Elem()}
		case TV:
			fr.regs[in] = TV{MkPtr(Sel("p-ref", p.T), Add(Sel("p-idx", p.T), idx)), in.Type()}
		default:
			unsup("IndexAddr on %T", base)
		}
	default:
		unsup("IndexAddr on %s", in.X.Type())
	}
}

func (x *Exec) sliceOp(st *State, in *ssa.Slice) Value {
	base := x.val(st, in.X)
	var lo, hi, mx *Term
	if in.Low != nil {
		lo = x.term(st, in.Low)
	}
	if in.High != nil {
		hi = x.term(st, in.High)
	}
	if in.Max != nil {
		mx = x.term(st, in.Max)
	}
	return x.sliceValue(st, base, in.X.Type(), in.Type(), lo, hi, mx, in.Pos(), true)
}

func (x *Exec) sliceValue(st *State, base Value, xt, rt types.Type, lo, hi, mx *Term, pos token.Pos, check bool) Value {
	if lo == nil {
		lo = IntLit(0)
	}
	switch u := xt.Underlying().(type) {
	case *types.Slice:
		tv := base.(TV)
		ln, cp := Sel("s-len", tv.T), Sel("s-cap", tv.T)
		if hi == nil {
			hi = ln
		}
		ncap := Sub(cp, lo)
		g := And(Le(IntLit(0), lo), Le(lo, hi), Le(hi, cp))
		if mx != nil {
			g = And(Le(IntLit(0), lo), Le(lo, hi), Le(hi, mx), Le(mx, cp))
			ncap = Sub(mx, lo)
		}
		if check {
			x.oblige(st, "safety", "slice-bounds", g, pos, nil)
		}
		// slicing a nil slice yields nil (ref 0) with off 0
		return TV{MkSlice(Sel("s-ref", tv.T), Add(Sel("s-off", tv.T), lo), Sub(hi, lo), ncap), rt}
	case *types.Basic: // string
		tv := base.(TV)
		ln := App("slen", SInt, tv.T)
		if hi == nil {
			hi = ln
		}
		if check {
			x.oblige(st, "safety", "slice-bounds", And(Le(IntLit(0), lo), Le(lo, hi), Le(hi, ln)), pos, nil)
		}
		return x.substr(st, tv.T, lo, hi, rt)
	case *types.Pointer:
		arr := u.Elem().Underlying().(*types.Array)
		n := IntLit(arr.Len())
		if hi == nil {
			hi = n
		}
		if check {
			x.oblige(st, "safety", "slice-bounds", And(Le(IntLit(0), lo), Le(lo, hi), Le(hi, n)), pos, nil)
		}
		tv, ok := base.(TV)
		if !ok {
			unsup("slice of local array (%T)", base)
		}
		return TV{MkSlice(Sel("p-ref", tv.T), Add(Sel("p-idx", tv.T), lo), Sub(hi, lo), Sub(n, lo)), rt}
	}
	unsup("slice of %s", xt)
	return nil
}

func (x *Exec) substr(st *State, s, lo, hi *Term, rt types.Type) Value {
	if v, ok := lo.IntVal(); ok && v.Sign() == 0 {
		if hi.String() == App("slen", SInt, s).String() {
			return TV{s, rt}
		}
	}
	t := App("ssub", SStr, s, lo, hi)
	// (inside a quantified specification the term mentions bound variables and
	// cannot be assumed about at top level; its length follows from the ssub axiom)
	if !mentionsBoundVar(t) {
		st.assume(x.ti.WF(t, types.Typ[types.String], nil)...)
	}
	return TV{t, rt}
}

var boundVarName = regexp.MustCompile(`![bw]\d+$`)

// mentionsBoundVar reports whether t contains a variable bound by a quantifier of
// the specification compiler (named <id>!b<n>).
func mentionsBoundVar(t *Term) bool {
	if len(t.Args) == 0 && len(t.Bound) == 0 {
		return boundVarName.MatchString(t.Op)
	}
	for _, a := range t.Args {
		if mentionsBoundVar(a) {
			return true
		}
	}
	return false
}

// ---------------------------------------------------------------------------
// Operators

func (x *Exec) unop(st *State, in *ssa.UnOp) Value {
	switch in.Op {
	case token.MUL:
		return x.load(st, x.val(st, in.X), in.Pos())
	case token.NOT:
		return TV{Not(x.term(st, in.X)), in.Type()}
	case token.SUB:
		t := x.term(st, in.X)
		switch {
		case t.Sort == SInt:
			r := Neg(t)
			return x.wrapInt(st, r, in.Type(), in.Pos())
		case t.Sort.IsFP():
			return TV{App("fp.neg", t.Sort, t), in.Type()}
		case t.Sort.IsBV():
			return TV{App("bvneg", t.Sort, t), in.Type()}
		}
	case token.XOR:
		t := x.term(st, in.X)
		if t.Sort.IsBV() {
			return TV{App("bvnot", t.Sort, t), in.Type()}
		}
		if t.Sort == SInt {
			b := in.Type().Underlying().(*types.Basic)
			bits, signed, _ := intBits(b)
			if signed {
				return TV{Sub(Neg(t), IntLit(1)), in.Type()}
			}
			_, hi := intRange(bits, false)
			return TV{Sub(IntLitBig(hi), t), in.Type()}
		}
	}
	unsup("unary %s on %s", in.Op, in.X.Type())
	return nil
}

// wrapInt applies the type's overflow behaviour to a mathematical result:
// signed types get a no-overflow obligation, small unsigned types wrap.
func (x *Exec) wrapInt(st *State, r *Term, t types.Type, pos token.Pos) Value {
	b, ok := t.Underlying().(*types.Basic)
	if !ok {
		unsup("integer op on %s", t)
	}
	bits, signed, _ := intBits(b)
	lo, hi := intRange(bits, signed)
	if signed && x.signedWrap {
		// two's-complement wrap-around, as the language defines it (opt signedwrap)
		if v, ok := r.IntVal(); ok && v.Cmp(lo) >= 0 && v.Cmp(hi) <= 0 {
			return TV{r, t}
		}
		m := new(big.Int).Lsh(big.NewInt(1), uint(bits))
		half := new(big.Int).Rsh(m, 1)
		return TV{Sub(App("mod", SInt, Add(r, IntLitBig(half)), IntLitBig(m)), IntLitBig(half)), t}
	}
	if signed {
		x.oblige(st, "safety", "overflow", And(Le(IntLitBig(lo), r), Le(r, IntLitBig(hi))), pos, nil)
		return TV{r, t}
	}
	if v, ok := r.IntVal(); ok {
		m := new(big.Int).Add(hi, big.NewInt(1))
		return TV{IntLitBig(new(big.Int).Mod(v, m)), t}
	}
	m := new(big.Int).Add(hi, big.NewInt(1))
	return TV{App("mod", SInt, r, IntLitBig(m)), t}
}

func isUnsignedType(t types.Type) bool {
	b, ok := t.Underlying().(*types.Basic)
	return ok && b.Info()&types.IsUnsigned != 0
}

func (x *Exec) binop(st *State, op token.Token, xv, yv Value, rt types.Type, pos token.Pos) Value {
	a, aok := xv.(TV)
	b, bok := yv.(TV)
	if !aok || !bok {
		// pointer comparisons involving cell pointers
		if op == token.EQL || op == token.NEQ {
			return TV{x.ptrEq(xv, yv, op == token.NEQ), rt}
		}
		unsup("binary %s on %T, %T", op, xv, yv)
	}
	at, bt := a.T, b.T
	// untyped nil against anything
	if at.Sort == SOpq && bt.Sort != SOpq && at.Op == "opq-nil" {
		at = x.ti.zeroOfSort(bt.Sort, b.Ty)
	}
	if bt.Sort == SOpq && at.Sort != SOpq && bt.Op == "opq-nil" {
		bt = x.ti.zeroOfSort(at.Sort, a.Ty)
	}
	switch op {
	case token.EQL, token.NEQ:
		var e *Term
		switch {
		case at.Sort == SSlice:
			// only comparison with nil is legal in Go
			other := at
			if at.String() == NilSlice.String() {
				other = bt
			}
			e = Eq(Sel("s-ref", other), IntLit(0))
		case at.Sort.IsFP():
			e = App("fp.eq", SBool, at, bt)
		default:
			if at.Sort != bt.Sort {
				unsup("comparison between sorts %s and %s", at.Sort, bt.Sort)
			}
			e = Eq(at, bt)
		}
		if op == token.NEQ {
			e = Not(e)
		}
		return TV{e, rt}
	case token.LSS, token.LEQ, token.GTR, token.GEQ:
		switch {
		case at.Sort == SInt:
			return TV{intCmp(op.String(), at, bt), rt}
		case at.Sort.IsFP():
			m := map[token.Token]string{token.LSS: "fp.lt", token.LEQ: "fp.leq", token.GTR: "fp.gt", token.GEQ: "fp.geq"}
			return TV{App(m[op], SBool, at, bt), rt}
		case at.Sort.IsBV():
			m := map[token.Token]string{token.LSS: "bvult", token.LEQ: "bvule", token.GTR: "bvugt", token.GEQ: "bvuge"}
			return TV{App(m[op], SBool, at, bt), rt}
		case at.Sort == SStr:
			ra, rb := App("srank", SInt, at), App("srank", SInt, bt)
			return TV{intCmp(op.String(), ra, rb), rt}
		}
	case token.ADD, token.SUB, token.MUL:
		switch {
		case at.Sort == SInt:
			var r *Term
			switch op {
			case token.ADD:
				r = Add(at, bt)
			case token.SUB:
				r = Sub(at, bt)
			default:
				r = Mul(at, bt)
			}
			return x.wrapInt(st, r, rt, pos)
		case at.Sort.IsFP():
			m := map[token.Token]string{token.ADD: "fp.add", token.SUB: "fp.sub", token.MUL: "fp.mul"}
			return TV{App(m[op], at.Sort, Atom("RNE", "RoundingMode"), at, bt), rt}
		case at.Sort.IsBV():
			m := map[token.Token]string{token.ADD: "bvadd", token.SUB: "bvsub", token.MUL: "bvmul"}
			return TV{App(m[op], at.Sort, at, bt), rt}
		case at.Sort == SStr && op == token.ADD:
			return x.concat(st, at, bt, rt)
		}
	case token.QUO, token.REM:
		switch {
		case at.Sort == SInt:
			x.oblige(st, "safety", "div-by-zero", Not(Eq(bt, IntLit(0))), pos, nil)
			fn := "godiv"
			if op == token.REM {
				fn = "gomod"
			}
			if av, ok := at.IntVal(); ok {
				if bv, ok := bt.IntVal(); ok && bv.Sign() != 0 {
					q, r := new(big.Int).QuoRem(av, bv, new(big.Int))
					if op == token.QUO {
						return TV{IntLitBig(q), rt}
					}
					return TV{IntLitBig(r), rt}
				}
			}
			r := App(fn, SInt, at, bt)
			if op == token.QUO && !isUnsignedType(rt) {
				return x.wrapInt(st, r, rt, pos) // MinInt / -1
			}
			return TV{r, rt}
		case at.Sort.IsFP() && op == token.QUO:
			return TV{App("fp.div", at.Sort, Atom("RNE", "RoundingMode"), at, bt), rt}
		case at.Sort.IsBV():
			x.oblige(st, "safety", "div-by-zero", Not(Eq(bt, x.ti.zeroOfSort(bt.Sort, nil))), pos, nil)
			if op == token.QUO {
				return TV{App("bvudiv", at.Sort, at, bt), rt}
			}
			return TV{App("bvurem", at.Sort, at, bt), rt}
		}
	case token.AND, token.OR, token.XOR, token.AND_NOT:
		if at.Sort.IsBV() {
			switch op {
			case token.AND:
				return TV{App("bvand", at.Sort, at, bt), rt}
			case token.OR:
				return TV{App("bvor", at.Sort, at, bt), rt}
			case token.XOR:
				return TV{App("bvxor", at.Sort, at, bt), rt}
			default:
				return TV{App("bvand", at.Sort, at, App("bvnot", bt.Sort, bt)), rt}
			}
		}
		if at.Sort == SBool {
			switch op {
			case token.AND:
				return TV{And(at, bt), rt}
			case token.OR:
				return TV{Or(at, bt), rt}
			}
		}
		if at.Sort == SInt {
			// small-constant masks: x & (2^k-1) == x mod 2^k (Euclidean mod; in two's
			// complement this also holds for negative x: -1 & 1 == 1 == (-1) mod 2)
			if op == token.AND {
				if bv, ok := bt.IntVal(); ok && bv.Sign() > 0 && bv.BitLen() < 62 {
					p := new(big.Int).Add(bv, big.NewInt(1))
					if new(big.Int).And(p, bv).Sign() == 0 {
						return TV{App("mod", SInt, at, IntLitBig(p)), rt}
					}
				}
			}
			if av, ok := at.IntVal(); ok {
				if bv, ok := bt.IntVal(); ok && av.Sign() >= 0 && bv.Sign() >= 0 {
					r := new(big.Int)
					switch op {
					case token.AND:
						r.And(av, bv)
					case token.OR:
						r.Or(av, bv)
					case token.XOR:
						r.Xor(av, bv)
					default:
						r.AndNot(av, bv)
					}
					return TV{IntLitBig(r), rt}
				}
			}
			// 8-bit operands: exact, by bit decomposition
			if b8, ok := rt.Underlying().(*types.Basic); ok && b8.Kind() == types.Uint8 {
				var sum *Term = IntLit(0)
				for i := 0; i < 8; i++ {
					p := IntLit(1 << uint(i))
					bit := func(t *Term) *Term {
						if v, ok := t.IntVal(); ok {
							return IntLit(int64(v.Bit(i)))
						}
						return App("mod", SInt, App("div", SInt, t, p), IntLit(2))
					}
					ba, bb := bit(at), bit(bt)
					var r *Term
					one := func(t *Term) *Term { return Eq(t, IntLit(1)) }
					switch op {
					case token.AND:
						r = Ite(And(one(ba), one(bb)), p, IntLit(0))
					case token.OR:
						r = Ite(Or(one(ba), one(bb)), p, IntLit(0))
					case token.XOR:
						r = Ite(Not(Eq(ba, bb)), p, IntLit(0))
					default:
						r = Ite(And(one(ba), Not(one(bb))), p, IntLit(0))
					}
					sum = Add(sum, r)
				}
				return TV{sum, rt}
			}
			// wider bit operations on mathematical integers: uninterpreted
			fn := map[token.Token]string{token.AND: "int-and", token.OR: "int-or", token.XOR: "int-xor", token.AND_NOT: "int-andnot"}[op]
			x.assumeNote("bitwise " + op.String() + " on mathematical integers is uninterpreted (" + fn + ")")
			return x.freshFromApp(st, fn, rt, at, bt)
		}
	case token.SHL, token.SHR:
		return x.shift(st, op, a, b, rt, pos)
	}
	unsup("binary %s on sorts %s, %s", op, at.Sort, bt.Sort)
	return nil
}

func (x *Exec) freshFromApp(st *State, fn string, rt types.Type, args ...*Term) Value {
	sort := x.ti.SortOf(rt)
	var as []string
	for _, a := range args {
		as = append(as, string(a.Sort))
	}
	x.declareFun(fn, fmt.Sprintf("(declare-fun %s (%s) %s)", fn, strings.Join(as, " "), sort))
	t := App(fn, sort, args...)
	st.assume(x.ti.WF(t, rt, st.alloc)...)
	return TV{t, rt}
}

func (x *Exec) ptrEq(a, b Value, neg bool) *Term {
	var r *Term
	ca, aok := a.(CellPtr)
	cb, bok := b.(CellPtr)
	switch {
	case aok && bok:
		if ca.Cell == cb.Cell && len(ca.Path) == 0 && len(cb.Path) == 0 {
			r = True
		} else if ca.Cell != cb.Cell {
			r = False
		} else {
			unsup("comparison of pointers into the same local")
		}
	case aok || bok:
		r = False // a pointer to a non-escaping local differs from any heap pointer and from nil
	default:
		unsup("pointer comparison of %T and %T", a, b)
	}
	if neg {
		return Not(r)
	}
	return r
}

func (x *Exec) concat(st *State, a, b *Term, rt types.Type) Value {
	if a.Op == "str-empty" {
		return TV{b, rt}
	}
	if b.Op == "str-empty" {
		return TV{a, rt}
	}
	t := App("sconcat", SStr, a, b)
	st.assume(x.ti.WF(t, types.Typ[types.String], nil)...)
	return TV{t, rt}
}

// bvOfSmallInt converts an Int term known to lie in [0,n) into a bit-vector by case split.
func bvOfSmallInt(k *Term, n int, sort Sort) *Term {
	w := sort.BVWidth()
	if v, ok := k.IntVal(); ok {
		return bvLit(v, w)
	}
	var t *Term = bvLit(big.NewInt(int64(n)), w) // out of range value: count >= width
	for i := n - 1; i >= 0; i-- {
		t = Ite(Eq(k, IntLit(int64(i))), bvLit(big.NewInt(int64(i)), w), t)
	}
	return t
}

func (x *Exec) shift(st *State, op token.Token, a, b TV, rt types.Type, pos token.Pos) Value {
	at, bt := a.T, b.T
	// shift count: Int (signed: obligation >= 0) or BV
	if at.Sort.IsBV() {
		w := at.Sort.BVWidth()
		var cnt *Term
		switch {
		case bt.Sort == SInt:
			if !isUnsignedType(b.Ty) {
				x.oblige(st, "safety", "negative-shift", Le(IntLit(0), bt), pos, nil)
			}
			cnt = bvOfSmallInt(bt, w, at.Sort)
		case bt.Sort == at.Sort:
			cnt = bt
		case bt.Sort.IsBV():
			bw := bt.Sort.BVWidth()
			if bw < w {
				cnt = App(fmt.Sprintf("(_ zero_extend %d)", w-bw), at.Sort, bt)
			} else {
				// wider count: saturate
				lim := bvLit(big.NewInt(int64(w)), bw)
				ext := App(fmt.Sprintf("(_ extract %d 0)", w-1), at.Sort, bt)
				cnt = Ite(App("bvuge", SBool, bt, lim), bvLit(big.NewInt(int64(w)), w), ext)
			}
		}
		if src := x.intOrigin(bt); src != nil && bt.Sort.IsBV() {
			cnt = Ite(And(Le(IntLit(0), src), Lt(src, IntLit(int64(w)))), bvOfSmallInt(src, w, at.Sort), bvLit(big.NewInt(int64(w)), w))
		}
		if op == token.SHL {
			return TV{App("bvshl", at.Sort, at, cnt), rt}
		}
		return TV{App("bvlshr", at.Sort, at, cnt), rt}
	}
	if at.Sort == SInt {
		var k *big.Int
		if v, ok := bt.IntVal(); ok {
			k = v
		} else if bt.Sort.IsBV() && strings.HasPrefix(bt.Op, "#x") {
			k, _ = new(big.Int).SetString(bt.Op[2:], 16)
		}
		if k != nil && k.Sign() >= 0 && k.Cmp(big.NewInt(64)) < 0 {
			p := new(big.Int).Lsh(big.NewInt(1), uint(k.Int64()))
			if op == token.SHL {
				return x.wrapIntShl(st, Mul(at, IntLitBig(p)), rt, pos)
			}
			// arithmetic shift right = floor division
			return TV{App("div", SInt, at, IntLitBig(p)), rt}
		}
		// variable count on an unsigned value modelled as Int: 2^k by case split
		if isUnsignedType(rt) && bt.Sort == SInt {
			bits, _, _ := intBits(rt.Underlying().(*types.Basic))
			if !isUnsignedType(b.Ty) {
				x.oblige(st, "safety", "negative-shift", Le(IntLit(0), bt), pos, nil)
			}
			var pow *Term = IntLit(0) // count >= width: everything shifted out
			for i := bits - 1; i >= 0; i-- {
				pow = Ite(Eq(bt, IntLit(int64(i))), IntLitBig(new(big.Int).Lsh(big.NewInt(1), uint(i))), pow)
			}
			if op == token.SHL {
				return x.wrapInt(st, Mul(at, pow), rt, pos)
			}
			return TV{Ite(Eq(pow, IntLit(0)), IntLit(0), App("div", SInt, at, pow)), rt}
		}
	}
	unsup("shift %s of sort %s by sort %s", op, at.Sort, bt.Sort)
	return nil
}

// wrapIntShl: Go's << on signed integers silently discards high bits (no panic);
// model exactly only when no overflow is proved.
func (x *Exec) wrapIntShl(st *State, r *Term, t types.Type, pos token.Pos) Value {
	return x.wrapInt(st, r, t, pos)
}

// intOrigin returns the Int term a bit-vector was converted from, if known.
func (x *Exec) intOrigin(t *Term) *Term {
	if t.Op == "(_ int2bv 64)" || t.Op == "(_ int2bv 32)" {
		return t.Args[0]
	}
	return nil
}

// ---------------------------------------------------------------------------
// Conversions

func (x *Exec) convert(st *State, v Value, from, to types.Type, pos token.Pos) Value {
	tv, ok := v.(TV)
	if !ok {
		unsup("conversion of %T", v)
	}
	fs, ts := tv.T.Sort, x.ti.SortOf(to)
	fu, tu := from.Underlying(), to.Underlying()
	fb, _ := fu.(*types.Basic)
	tb, _ := tu.(*types.Basic)
	switch {
	case fs == SInt && ts == SInt && fb != nil && tb != nil && tb.Info()&types.IsInteger != 0:
		tbits, tsigned, _ := intBits(tb)
		fbits, fsigned, _ := intBits(fb)
		if (tsigned == fsigned && tbits >= fbits) || (tsigned && !fsigned && tbits > fbits) {
			return TV{tv.T, to}
		}
		lo, hi := intRange(tbits, tsigned)
		if val, ok := tv.T.IntVal(); ok && val.Cmp(lo) >= 0 && val.Cmp(hi) <= 0 {
			return TV{tv.T, to}
		}
		m := new(big.Int).Lsh(big.NewInt(1), uint(tbits))
		if !tsigned {
			return TV{App("mod", SInt, tv.T, IntLitBig(m)), to}
		}
		half := new(big.Int).Rsh(m, 1)
		return TV{Sub(App("mod", SInt, Add(tv.T, IntLitBig(half)), IntLitBig(m)), IntLitBig(half)), to}
	case fs == SInt && ts.IsBV():
		if val, ok := tv.T.IntVal(); ok {
			return TV{bvLit(val, ts.BVWidth()), to}
		}
		return TV{App(fmt.Sprintf("(_ int2bv %d)", ts.BVWidth()), ts, tv.T), to}
	case fs.IsBV() && ts == SInt:
		// unsigned value, then wrap into the target
		if src := x.intOrigin(tv.T); src != nil {
			_ = src
		}
		nat := App("bv2nat", SInt, tv.T)
		tbits, tsigned, _ := intBits(tb)
		if !tsigned && tbits >= fs.BVWidth() {
			return TV{nat, to}
		}
		m := new(big.Int).Lsh(big.NewInt(1), uint(tbits))
		if !tsigned {
			return TV{App("mod", SInt, nat, IntLitBig(m)), to}
		}
		if tbits > fs.BVWidth() {
			return TV{nat, to}
		}
		half := new(big.Int).Rsh(m, 1)
		return TV{Sub(App("mod", SInt, Add(nat, IntLitBig(half)), IntLitBig(m)), IntLitBig(half)), to}
	case fs.IsBV() && ts.IsBV():
		fw, tw := fs.BVWidth(), ts.BVWidth()
		switch {
		case fw == tw:
			return TV{tv.T, to}
		case fw < tw:
			return TV{App(fmt.Sprintf("(_ zero_extend %d)", tw-fw), ts, tv.T), to}
		default:
			return TV{App(fmt.Sprintf("(_ extract %d 0)", tw-1), ts, tv.T), to}
		}
	case fs == SInt && ts.IsFP():
		if val, ok := tv.T.IntVal(); ok && val.IsInt64() && ts == SF64 {
			f, _ := new(big.Float).SetInt(val).Float64()
			return TV{fpLit(f), to}
		}
		return TV{x.i2fTerm(tv.T), to}
	case fs.IsBV() && ts.IsFP():
		// unsigned machine integer to float: correctly rounded by SMT-LIB's to_fp_unsigned
		return TV{App("(_ to_fp_unsigned "+strings.TrimSuffix(strings.TrimPrefix(string(ts), "(_ FloatingPoint "), ")")+")", ts, Atom("RNE", "RoundingMode"), tv.T), to}
	case fs.IsFP() && ts == SInt:
		x.declareFun("f2i", "(declare-fun f2i ((_ FloatingPoint 11 53)) Int)")
		t := App("f2i", SInt, tv.T)
		st.assume(x.ti.WF(t, to, nil)...)
		// exact for values in range: truncation toward zero
		x.assumeNote("float64→int conversion is an uninterpreted function of the float; converting its result back, float64(int(f)), is exactly f rounded toward zero to an integral value for |f| <= 2^62")
		return TV{t, to}
	case fs.IsFP() && ts.IsFP():
		if fs == ts {
			return TV{tv.T, to}
		}
		return TV{App("(_ to_fp "+strings.TrimSuffix(strings.TrimPrefix(string(ts), "(_ FloatingPoint "), ")")+")", ts, Atom("RNE", "RoundingMode"), tv.T), to}
	case fs == SStr && ts == SSlice:
		// []byte(s): fresh object holding the bytes of s
		elem := tu.(*types.Slice).Elem()
		if eb, ok := elem.Underlying().(*types.Basic); !ok || eb.Kind() != types.Uint8 {
			unsup("conversion string → %s", to)
		}
		ln := App("slen", SInt, tv.T)
		ref := x.newRef(st)
		key, h := x.heapTerm(st, elem)
		arr := x.fresh("bytesof", ArraySort(SInt, SInt))
		j := Atom("j!q", SInt)
		st.assume(&Term{Op: "forall", Sort: SBool, Bound: []*Term{j}, Args: []*Term{Implies(And(Le(IntLit(0), j), Lt(j, ln)), Eq(Select(arr, j), App("sat", SInt, tv.T, j)))}})
		st.heap[key] = Store(h, ref, arr)
		return TV{MkSlice(ref, IntLit(0), ln, ln), to}
	case fs == SSlice && ts == SStr:
		elem := fu.(*types.Slice).Elem()
		if eb, ok := elem.Underlying().(*types.Basic); !ok || eb.Kind() != types.Uint8 {
			unsup("conversion %s → string", from)
		}
		return TV{x.bytesToStr(st, tv.T, elem), to}
	case fs == SInt && ts == SStr:
		x.declareFun("rune2str", "(declare-fun rune2str (Int) Str)")
		t := App("rune2str", SStr, tv.T)
		st.assume(x.ti.WF(t, types.Typ[types.String], nil)...)
		st.assume(Implies(And(Le(IntLit(0), tv.T), Lt(tv.T, IntLit(128))), And(Eq(App("slen", SInt, t), IntLit(1)), Eq(App("sat", SInt, t, IntLit(0)), tv.T))))
		return TV{t, to}
	case fs == ts:
		return TV{tv.T, to}
	}
	unsup("conversion %s → %s", from, to)
	return nil
}

// bytesToStr is string(b): a function of the bytes b[0:len].
func (x *Exec) bytesToStr(st *State, s *Term, elem types.Type) *Term {
	ln := Sel("s-len", s)
	if v, ok := ln.IntVal(); ok && v.Sign() == 0 {
		return Atom("str-empty", SStr)
	}
	_, h := x.heapTerm(st, elem)
	arr := Select(h, Sel("s-ref", s))
	t := App("bytes2str", SStr, arr, Sel("s-off", s), ln)
	return t
}

func (x *Exec) makeInterface(st *State, v Value, from, to types.Type) Value {
	tv, ok := v.(TV)
	if !ok {
		// pointers to locals etc. boxed in interfaces: opaque non-nil
		t := x.fresh("iface", SIface)
		st.assume(Not(Eq(t, Atom("iface-nil", SIface))))
		return TV{t, to}
	}
	fn := "box_" + x.ti.typeKey(from)
	ufn := "unbox_" + x.ti.typeKey(from)
	x.declareFun("dyntype", "(declare-fun dyntype (Iface) Int)")
	if !x.declared[fn] {
		x.declareFun(fn, fmt.Sprintf("(declare-fun %s (%s) Iface)", fn, tv.T.Sort))
		x.declareFun(ufn, fmt.Sprintf("(declare-fun %s (Iface) %s)", ufn, tv.T.Sort))
		// a boxed concrete value is never the nil interface, carries its type, and unboxes to itself
		x.counter++
		v := Atom(fmt.Sprintf("v!box%d", x.counter), tv.T.Sort)
		b := App(fn, SIface, v)
		x.axioms = append(x.axioms, &Term{Op: "forall", Sort: SBool, Bound: []*Term{v}, Args: []*Term{And(
			Not(Eq(b, Atom("iface-nil", SIface))),
			Eq(App("dyntype", SInt, b), IntLit(int64(x.v.typeID(from)))),
			Eq(App(ufn, tv.T.Sort, b), v))}, Pats: []*Term{b}})
	}
	t := App(fn, SIface, tv.T)
	return TV{t, to}
}

func (x *Exec) typeAssert(st *State, fr *Frame, in *ssa.TypeAssert) []*State {
	tv := x.val(st, in.X).(TV)
	x.declareFun("dyntype", "(declare-fun dyntype (Iface) Int)")
	if _, isIface := in.AssertedType.Underlying().(*types.Interface); isIface {
		unsup("type assertion to interface type %s", in.AssertedType)
	}
	id := IntLit(int64(x.v.typeID(in.AssertedType)))
	isT := And(Not(Eq(tv.T, Atom("iface-nil", SIface))), Eq(App("dyntype", SInt, tv.T), id))
	fn := "unbox_" + x.ti.typeKey(in.AssertedType)
	sort := x.ti.SortOf(in.AssertedType)
	x.declareFun(fn, fmt.Sprintf("(declare-fun %s (Iface) %s)", fn, sort))
	val := App(fn, sort, tv.T)
	// unbox(box(v)) = v
	if strings.HasPrefix(tv.T.Op, "box_") && tv.T.Op == "box_"+x.ti.typeKey(in.AssertedType) {
		val = tv.T.Args[0]
	}
	if in.CommaOk {
		st.assume(Implies(isT, And(x.ti.WF(val, in.AssertedType, st.alloc)...)))
		res := Ite(isT, val, x.ti.ZeroTerm(in.AssertedType))
		fr.regs[in] = Tuple{TV{res, in.AssertedType}, TV{isT, types.Typ[types.Bool]}}
		return nil
	}
	x.oblige(st, "safety", "type-assert", isT, in.Pos(), nil)
	st.assume(isT)
	st.assume(x.ti.WF(val, in.AssertedType, st.alloc)...)
	fr.regs[in] = TV{val, in.AssertedType}
	return nil
}

// ---------------------------------------------------------------------------
// Maps

func (x *Exec) mapHeaps(st *State, mt *types.Map) (dk, vk, lk string, dom, val, ln *Term) {
	dk, vk, lk = x.ti.MapKeys(mt)
	ks, vs := x.ti.SortOf(mt.Key()), x.ti.SortOf(mt.Elem())
	if x.mapValType[vk] == nil {
		x.mapValType[vk] = mt
		x.declare(vk, ArraySort(SInt, ArraySort(ks, vs)))
		x.axioms = append(x.axioms, x.mapRefsBounded(Atom(vk, ArraySort(SInt, ArraySort(ks, vs))), mt, Atom("alloc0", SInt))...)
	}
	dom = x.heapByKey(st, dk, ArraySort(SInt, ArraySort(ks, SBool)))
	val = x.heapByKey(st, vk, ArraySort(SInt, ArraySort(ks, vs)))
	ln = x.heapByKey(st, lk, ArraySort(SInt, SInt))
	return
}

func (x *Exec) mapInit(st *State, mt *types.Map, ref *Term) {
	dk, _, lk, dom, _, ln := x.mapHeaps(st, mt)
	ks := x.ti.SortOf(mt.Key())
	st.heap[dk] = Store(dom, ref, ConstArray(ArraySort(ks, SBool), False))
	st.heap[lk] = Store(ln, ref, IntLit(0))
}

func (x *Exec) lookup(st *State, fr *Frame, in *ssa.Lookup) {
	xv := x.val(st, in.X).(TV)
	if mt, ok := in.X.Type().Underlying().(*types.Map); ok {
		key := x.term(st, in.Index)
		_, _, _, dom, val, _ := x.mapHeaps(st, mt)
		has := And(Not(Eq(xv.T, IntLit(0))), Select(Select(dom, xv.T), key))
		v := Ite(has, Select(Select(val, xv.T), key), x.ti.ZeroTerm(mt.Elem()))
		st.assume(Implies(has, And(x.ti.WF(Select(Select(val, xv.T), key), mt.Elem(), st.alloc)...)))
		switch mt.Elem().Underlying().(type) {
		case *types.Slice, *types.Struct:
			// name compound values: they are re-read and nested in later terms
			nv := x.fresh("mapv", v.Sort)
			st.assume(Eq(nv, v))
			v = nv
		}
		if in.CommaOk {
			fr.regs[in] = Tuple{TV{v, mt.Elem()}, TV{has, types.Typ[types.Bool]}}
		} else {
			fr.regs[in] = TV{v, mt.Elem()}
		}
		return
	}
	// string index
	idx := x.term(st, in.Index)
	x.oblige(st, "safety", "index", And(Le(IntLit(0), idx), Lt(idx, App("slen", SInt, xv.T))), in.Pos(), nil)
	t := App("sat", SInt, xv.T, idx)
	st.assume(Le(IntLit(0), t), Le(t, IntLit(255)))
	fr.regs[in] = TV{t, types.Typ[types.Uint8]}
}

func (x *Exec) mapUpdate(st *State, in *ssa.MapUpdate) {
	mv := x.val(st, in.Map).(TV)
	mt := in.Map.Type().Underlying().(*types.Map)
	key := x.term(st, in.Key)
	val := x.term(st, in.Value)
	x.oblige(st, "safety", "nil-map-write", Not(Eq(mv.T, IntLit(0))), in.Pos(), nil)
	x.mapStore(st, mt, mv.T, key, val)
}

func (x *Exec) mapStore(st *State, mt *types.Map, ref, key, val *Term) {
	dk, vk, lk, dom, vals, ln := x.mapHeaps(st, mt)
	had := Select(Select(dom, ref), key)
	st.heap[dk] = Store(dom, ref, Store(Select(dom, ref), key, True))
	st.heap[vk] = Store(vals, ref, Store(Select(vals, ref), key, val))
	st.heap[lk] = Store(ln, ref, Add(Select(ln, ref), Ite(had, IntLit(0), IntLit(1))))
}

func (x *Exec) mapDelete(st *State, mt *types.Map, ref, key *Term) {
	dk, _, lk, dom, _, ln := x.mapHeaps(st, mt)
	had := And(Not(Eq(ref, IntLit(0))), Select(Select(dom, ref), key))
	st.heap[dk] = Store(dom, ref, Store(Select(dom, ref), key, False))
	st.heap[lk] = Store(ln, ref, Sub(Select(ln, ref), Ite(had, IntLit(1), IntLit(0))))
}

// ---------------------------------------------------------------------------
// String iteration

func (x *Exec) next(st *State, fr *Frame, in *ssa.Next) []*State {
	it, ok := x.val(st, in.Iter).(IterV)
	if ok && it.MapT != nil {
		return x.nextMap(st, fr, in, it)
	}
	if !ok || !in.IsString {
		unsup("next on non-string iterator")
	}
	pos := st.cells[it.Cell].(TV).T
	ln := App("slen", SInt, it.Str)
	ok1 := Lt(pos, ln)
	// decode rune at pos
	x.declareFun("runeAt", "(declare-fun runeAt (Str Int) Int)")
	x.declareFun("runeLen", "(declare-fun runeLen (Str Int) Int)")
	r := App("runeAt", SInt, it.Str, pos)
	n := App("runeLen", SInt, it.Str, pos)
	b0 := App("sat", SInt, it.Str, pos)
	st.assume(Implies(ok1, And(
		Le(IntLit(1), n), Le(n, IntLit(4)), Le(Add(pos, n), ln),
		Le(IntLit(0), r), Le(r, IntLit(0x10FFFF)),
		Le(IntLit(0), b0), Le(b0, IntLit(255)),
		Implies(Lt(b0, IntLit(128)), And(Eq(r, b0), Eq(n, IntLit(1)))),
		Implies(Ge(b0, IntLit(128)), Ge(r, IntLit(128))),
	)))
	x.assumeNote("range over string: rune decoding is utf8-shaped (1..4 bytes, ASCII exact, non-ASCII lead byte gives rune >= 0x80); multi-byte decoding is uninterpreted")
	st.cells[it.Cell] = TV{Ite(ok1, Add(pos, n), pos), types.Typ[types.Int]}
	fr.regs[in] = Tuple{TV{ok1, types.Typ[types.Bool]}, TV{pos, types.Typ[types.Int]}, TV{r, types.Typ[types.Rune]}}
	return nil
}

// ---------------------------------------------------------------------------
// helpers

func sortedHeapKeys(m map[string]*Term) []string {
	ks := make([]string, 0, len(m))
	for k := range m {
		ks = append(ks, k)
	}
	sort.Strings(ks)
	return ks
}

// i2fTerm is float64(t) for an integer term t.  float64(int(f)) is exactly f
// rounded toward zero to an integral value whenever int(f) is defined (|f| within
// the int64 range): the truncated value of a float is itself a float.
func (x *Exec) i2fTerm(t *Term) *Term {
	x.declareI2F()
	app := App("i2f", SF64, t)
	if t.Op == "f2i" && len(t.Args) == 1 && t.Args[0].Sort == SF64 {
		f := t.Args[0]
		lim := fpLit(4611686018427387904) // 2^62
		inRange := And(App("fp.leq", SBool, App("fp.neg", SF64, lim), f), App("fp.leq", SBool, f, lim))
		return App("ite", SF64, inRange, App("fp.roundToIntegral", SF64, Atom("RTZ", "RoundingMode"), f), app)
	}
	return app
}

// declareI2F: float64(int) is an uninterpreted function that never yields NaN or
// infinity (every int64 is within float64's finite range); its rounding is assumed
// correct by the language (listed as an assumption).
func (x *Exec) declareI2F() {
	if x.declared["i2f"] {
		return
	}
	x.declareFun("i2f", "(declare-fun i2f (Int) (_ FloatingPoint 11 53))")
	n := Atom("n!i2f", SInt)
	app := App("i2f", SF64, n)
	x.axioms = append(x.axioms, &Term{Op: "forall", Sort: SBool, Bound: []*Term{n}, Args: []*Term{And(Not(App("fp.isNaN", SBool, app)), Not(App("fp.isInfinite", SBool, app)))}, Pats: []*Term{app}})
	// exact on the small integers that programs convert routinely (counts, exponents)
	for k := int64(-2); k <= 16; k++ {
		x.axioms = append(x.axioms, Eq(App("i2f", SF64, IntLit(k)), fpLit(float64(k))))
	}
	x.assumeNote("float64(integer) is an uninterpreted, NaN-free, finite function of the integer, exact on -2..16 (Go rounds it correctly; not modelled beyond that)")
}

// compactHeaps names every heap state that has grown into a large term:
// H!n = <term> becomes a hypothesis and later terms mention only H!n.
func (x *Exec) compactHeaps(st *State) {
	for _, key := range sortedHeapKeys(st.heap) {
		h := st.heap[key]
		if len(h.Args) == 0 {
			continue
		}
		if len(h.String()) < 160 {
			continue
		}
		n := x.fresh(key, h.Sort)
		termDefs[n.Op] = h
		st.hyps = append(st.hyps, App("=", SBool, n, h))
		st.heap[key] = n
	}
}

// nextMap: one step of a map iteration.  Go visits every key that is in the
// map when it is reached and has not been visited; keys deleted before being
// reached are skipped; the order is unspecified.  The iterator carries the set
// of visited keys; ok is false exactly when no unvisited key remains.
func (x *Exec) nextMap(st *State, fr *Frame, in *ssa.Next, it IterV) []*State {
	mt := it.MapT
	ks := x.ti.SortOf(mt.Key())
	_, _, _, dom, val, _ := x.mapHeaps(st, mt)
	visited := st.cells[it.Cell].(TV).T
	ok := x.fresh("mapnext_ok", SBool)
	k := x.fresh("mapnext_k", ks)
	isNil := Eq(it.Map, IntLit(0))
	inDom := func(key *Term) *Term { return And(Not(isNil), Select(Select(dom, it.Map), key)) }
	x.counter++
	q := Atom(fmt.Sprintf("k!m%d", x.counter), ks)
	st.assume(Implies(ok, And(inDom(k), Not(Select(visited, k)))))
	st.assume(Implies(Not(ok), &Term{Op: "forall", Sort: SBool, Bound: []*Term{q}, Args: []*Term{Implies(inDom(q), Select(visited, q))}}))
	st.assume(x.ti.WF(k, mt.Key(), st.alloc)...)
	v := Select(Select(val, it.Map), k)
	st.assume(Implies(ok, And(x.ti.WF(v, mt.Elem(), st.alloc)...)))
	st.cells[it.Cell] = TV{Ite(ok, Store(visited, k, True), visited), nil}
	fr.regs[in] = Tuple{TV{ok, types.Typ[types.Bool]}, TV{k, mt.Key()}, TV{v, mt.Elem()}}
	return nil
}
