#!/bin/sh
# Build the verifier offline.
set -e
export GOFLAGS=-mod=mod GOPROXY=off GOSUMDB=off GOTOOLCHAIN=local
mkdir -p /verif/bin
cd /verif/gocv && go build -o /verif/bin/gocv .
